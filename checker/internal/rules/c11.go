package rules

import (
	"fmt"
	"go/token"
	"go/types"
	"regexp"
	"regexp/syntax"
	"sort"
	"strings"

	"golang.org/x/tools/go/ssa"

	"mocverif/internal/an"
	"mocverif/internal/core"
)

func init() {
	reg(&core.RuleInfo{Name: "VAL-DOM", Props: []string{"C11", "C12"}, Engine: "INT", Floor: 9, Confirmed: 11,
		Doc: "integer/rune domains of the field validators equal the statement's", Run: runValDom})
	reg(&core.RuleInfo{Name: "NADDR-SPLIT", Props: []string{"C11", "C12"}, Engine: "TAB", Floor: 1, Confirmed: 1,
		Doc: "address split keeps ':' inside d", Run: runNaddrSplit})
	reg(&core.RuleInfo{Name: "DISPATCH-WS", Props: []string{"C11", "C12"}, Engine: "TAB", Floor: 1, Confirmed: 1,
		Doc: "dispatch pattern admits insignificant whitespace around '['", Run: runDispatchWS})
	reg(&core.RuleInfo{Name: "VAL-EXH", Props: []string{"C11", "C12"}, Engine: "TAB", Floor: 10, Confirmed: 15,
		Doc: "ValidClientMsg/ParseClientMsg have one clause per client message type", Run: runValExh})
	reg(&core.RuleInfo{Name: "VAL-SLICE", Props: []string{"C11", "C12"}, Engine: "CFG", Floor: 12, Confirmed: 20,
		Doc: "each Valid() result depends on the validator of every field", Run: runValSlice})
}

var letters = an.Range('A', 'Z').Union(an.Range('a', 'z'))
var hexset = an.Range('0', '9').Union(an.Range('a', 'f'))

// validatorOf finds, in fn (incl. closures), the bool-returning module
// function called with an argument whose access path is argPath.
func validatorCall(c *core.Ctx, fn *ssa.Function, argPath string) (*ssa.Call, *ssa.Function) {
	for _, f := range an.WithAnon(fn) {
		for _, ci := range calls(f) {
			call, ok := ci.(*ssa.Call)
			if !ok {
				continue
			}
			callee := an.StaticCallee(&call.Call)
			if callee == nil || !c.P.InModule(callee) {
				continue
			}
			if len(call.Call.Args) == 0 {
				continue
			}
			a0 := call.Call.Args[0]
			if callee.Signature.Recv() != nil {
				continue
			}
			if an.PathOf(a0) == argPath {
				return call, callee
			}
		}
	}
	return nil, nil
}

// rangesOverParam: fn loops over the runes/bytes of its first parameter.
func rangesOverParam(fn *ssa.Function) bool {
	found := false
	an.Instrs(fn, func(in ssa.Instruction) {
		if v, ok := in.(ssa.Value); ok && (an.PathOf(v) == "rangeval("+paramPath(fn, 0)+")" || (an.PathOf(v) == paramPath(fn, 0)+"[*]" && an.InLoop(in.Block()))) {
			found = true
		}
	})
	return found
}

func paramPath(fn *ssa.Function, i int) string { return "p:" + fn.Params[i].Name() }

func runValDom(c *core.Ctx) {
	P := c.P
	evValid := P.Method(P.Root, "Event", "Valid")
	filValid := P.Method(P.Root, "ReqFilter", "Valid")
	if evValid == nil || filValid == nil {
		c.NoAnchor(nil, "Event.Valid / ReqFilter.Valid")
		return
	}
	c.CountFuncs(2)
	doneHex := map[*ssa.Function]bool{}
	// length + charset validators
	for _, fl := range []struct {
		field string
		n     int64
	}{{"ID", 64}, {"Pubkey", 64}, {"Sig", 128}} {
		_, v := validatorCall(c, evValid, "recv."+fl.field)
		if v == nil {
			c.Unknown(nil, fname(c, evValid), "validator("+fl.field+")", P.Pos(evValid.Pos()), "no module function is applied to ev."+fl.field+" in Event.Valid")
			continue
		}
		c.CountFuncs(1)
		// the length Event.Valid accepts for the field — tested in Valid itself or in the
		// predicate helpers it delegates to
		fr := an.ConstFrame("len(recv." + fl.field + ")")
		var opq []an.Cond
		t, _, n, ok := fr.FuncBoolMeaning(evValid, 0, nil, &opq)
		c.CountPaths(n)
		if !ok {
			c.Unknown(nil, fname(c, evValid), "domain(len "+fl.field+")", P.Pos(evValid.Pos()), "path enumeration gave up")
		} else {
			c.Check(t.Equal(an.Range(fl.n, fl.n)), nil, fname(c, evValid), "domain(len "+fl.field+")", P.Pos(v.Pos()),
				fmt.Sprintf("accepts len ∈ %s", t), fmt.Sprintf("accepts len ∈ %s, want [%d,%d]", t, fl.n, fl.n))
		}
		// charset: callee applied to the same parameter
		hx := v
		if !rangesOverParam(hx) {
			_, hx = validatorCall(c, v, paramPath(v, 0))
		}
		// the character test may sit one or two helpers further down (validX → validHexOfLen → validHexString)
		for depth := 0; hx != nil && depth < 3 && !rangesOverParam(hx); depth++ {
			_, next := validatorCall(c, hx, paramPath(hx, 0))
			if next == nil {
				break
			}
			hx = next
		}
		if hx == nil {
			c.Unknown(nil, fname(c, v), "charset("+fl.field+")", P.Pos(v.Pos()), "no charset function applied to the parameter")
			continue
		}
		if doneHex[hx] {
			continue
		}
		doneHex[hx] = true
		checkCharset(c, hx, hexset, "lower-case hex")
	}
	// kind
	if _, v := validatorCall(c, evValid, "recv.Kind"); v == nil {
		c.Unknown(nil, fname(c, evValid), "validator(Kind)", P.Pos(evValid.Pos()), "no module function is applied to ev.Kind")
	} else {
		checkKindDomain(c, v)
		// the filter's kinds validator must have the same domain
		if fv := allFuncValidator(c, filValid, "recv.Kinds"); fv != nil && fv != v {
			checkKindDomain(c, fv)
		}
	}
	// since / until / limit >= 0
	for _, fld := range []string{"Since", "Until", "Limit"} {
		ap := "recv." + fld
		// with the field present — wherever its presence is tested (Valid or a predicate helper)
		fr := an.ConstFrame(ap).AssumePresent(ap)
		var opq []an.Cond
		t, _, n, ok := fr.FuncBoolMeaning(filValid, 0, nil, &opq)
		c.CountPaths(n)
		if !ok || n == 0 {
			c.Unknown(nil, fname(c, filValid), "domain("+fld+")", P.Pos(filValid.Pos()), fmt.Sprintf("too many paths (paths=%d)", n))
			continue
		}
		c.Check(t.Equal(an.Range(0, an.PosInf)), nil, fname(c, filValid), "domain("+fld+")", P.Pos(filValid.Pos()),
			fmt.Sprintf("present %s accepted ∈ %s", fld, t), fmt.Sprintf("present %s accepted ∈ %s, want [0,+∞)", fld, t))
	}
	// the window: with both bounds present a filter is refused for since > until at most — since ==
	// until (a one-second window) and since < until are well-formed and must stay acceptable
	{
		fr := an.SymFrame("recv.Since", "recv.Until").AssumePresent("recv.Since").AssumePresent("recv.Until")
		var opq []an.Cond
		t, _, n, ok := fr.FuncBoolMeaning(filValid, 0, nil, &opq)
		c.CountPaths(n)
		if !ok || n == 0 {
			c.Unknown(nil, fname(c, filValid), "window(Since,Until)", P.Pos(filValid.Pos()), fmt.Sprintf("too many paths (paths=%d)", n))
		} else {
			c.Check(an.Range(an.NegInf, 0).Subset(t), nil, fname(c, filValid), "window(Since,Until)", P.Pos(filValid.Pos()),
				"with both bounds present the filter can be valid for since ∈ "+t.Format("until")+": every since ≤ until stays acceptable",
				"with both bounds present the filter can be valid only for since ∈ "+t.Format("until")+", want at least (-∞,until]: a well-formed window (since == until is one second wide) is judged invalid")
		}
	}
	// tag-key letter set in Valid: accept set at the loop latch
	checkLoopAccept(c, filValid, "rangekey(recv.Tags)[0]", letters, "tag-key letter (Valid)")
	// ... and in the decoder: the clause that stores into .Tags
	dec := P.Method(P.Root, "ReqFilter", "UnmarshalJSON")
	if dec == nil {
		c.NoAnchor(nil, "ReqFilter.UnmarshalJSON")
		return
	}
	c.CountFuncs(1)
	var target *ssa.BasicBlock
	an.Instrs(dec, func(in ssa.Instruction) {
		if mu, ok := in.(*ssa.MapUpdate); ok && strings.HasSuffix(an.PathOf(mu.Map), ".Tags") {
			target = mu.Block()
		}
	})
	if target == nil {
		c.Unknown(nil, fname(c, dec), "tag-key clause", P.Pos(dec.Pos()), "no map update of the Tags field found in the filter decoder")
		return
	}
	paths, ok := an.PathsTo(dec, target, 4096)
	c.CountPaths(len(paths))
	if !ok {
		c.Unknown(nil, fname(c, dec), "tag-key clause", P.Pos(dec.Pos()), "too many paths")
		return
	}
	// the key variable k of the clause: the Tags map is updated under a key cut from it
	// (`ret.Tags[k[1:2]] = …`); the subjects are its bytes k[0], k[1] and its length —
	// wherever the tests are written (inline or in a predicate helper)
	kpath := ""
	an.Instrs(dec, func(in ssa.Instruction) {
		if mu, ok := in.(*ssa.MapUpdate); ok && strings.HasSuffix(an.PathOf(mu.Map), ".Tags") {
			kp := an.PathOf(mu.Key)
			if i := strings.LastIndex(kp, "["); i > 0 && strings.Contains(kp[i:], ":") {
				kp = kp[:i]
			}
			kpath = kp
		}
	})
	subj := map[string]bool{kpath + "[0]": true, kpath + "[1]": true}
	var sets []string
	foundHash, foundLetters := false, false
	var keys []string
	for s := range subj {
		keys = append(keys, s)
	}
	sort.Strings(keys)
	for _, s := range keys {
		fr := an.ConstFrame(s)
		set := an.Empty()
		for _, p := range paths {
			set = set.Union(fr.PathMeaning(p, nil))
		}
		sets = append(sets, s+"∈"+set.String())
		if set.Equal(an.Range('#', '#')) {
			foundHash = true
		}
		if set.Equal(letters) {
			foundLetters = true
		}
	}
	c.Check(foundHash && foundLetters && len(keys) == 2, nil, fname(c, dec), "domain(tag-key decoder)", P.Pos(target.Instrs[0].Pos()),
		"Tags clause reached iff key = '#' + one ASCII letter: "+strings.Join(sets, ", "),
		"Tags clause reached under "+strings.Join(sets, ", ")+"; want '#' then [A-Z]∪[a-z]")
	// the key length
	{
		lenSubj := "len(" + kpath + ")"
		if kpath == "" {
			lenSubj = ""
		}
		if lenSubj == "" {
			c.Unknown(nil, fname(c, dec), "domain(tag-key length decoder)", P.Pos(target.Instrs[0].Pos()), "no length test of the key on the way to the Tags clause")
		} else {
			fr := an.ConstFrame(lenSubj)
			set := an.Empty()
			for _, p := range paths {
				set = set.Union(fr.PathMeaning(p, nil))
			}
			c.Check(set.Equal(an.Range(2, 2)), nil, fname(c, dec), "domain(tag-key length decoder)", P.Pos(target.Instrs[0].Pos()),
				"key length ∈ "+set.String(), "key length ∈ "+set.String()+", want [2,2]")
		}
	}
}

func checkKindDomain(c *core.Ctx, v *ssa.Function) {
	c.CountFuncs(1)
	fr := an.ConstFrame(paramPath(v, 0))
	var opq []an.Cond
	t, _, n, ok := fr.FuncBoolMeaning(v, 0, nil, &opq)
	c.CountPaths(n)
	if !ok {
		c.Unknown(nil, fname(c, v), "domain(kind)", c.P.Pos(v.Pos()), "path enumeration gave up")
		return
	}
	if len(opq) > 0 {
		c.Unknown(nil, fname(c, v), "domain(kind)", c.P.Pos(v.Pos()), "kind predicate has conditions outside the interval fragment: "+describeConds(opq))
		return
	}
	c.Check(t.Equal(an.Range(0, 65535)), nil, fname(c, v), "domain(kind)", c.P.Pos(v.Pos()),
		"accepts kind ∈ "+t.String(), "accepts kind ∈ "+t.String()+", want [0,65535]")
}

// checkCharset: fn ranges over its string parameter; the set of runes under
// which the loop continues must equal want.
func checkCharset(c *core.Ctx, fn *ssa.Function, want an.Set, what string) {
	c.CountFuncs(1)
	// the characters are visited by a range loop (runes) or by an index loop (bytes)
	subject := "rangeval(" + paramPath(fn, 0) + ")"
	byIndex := paramPath(fn, 0) + "[*]"
	found := false
	an.Instrs(fn, func(in ssa.Instruction) {
		if v, ok := in.(ssa.Value); ok && an.PathOf(v) == subject {
			found = true
		}
	})
	if !found {
		subject = byIndex
		// no loop of its own: `!strings.ContainsFunc(s, bad)` — every rune must fail bad
		for _, ci := range calls(fn) {
			call, isCall := ci.(*ssa.Call)
			if !isCall || an.CalleeName(&call.Call) != "strings.ContainsFunc" || an.PathOf(call.Call.Args[0]) != paramPath(fn, 0) {
				continue
			}
			pred := funcValue(call.Call.Args[1])
			if pred == nil || len(pred.Params) != 1 {
				continue
			}
			pred, first := throughBound(pred)
			var opq []an.Cond
			_, f, n, ok := an.ConstFrame(paramPath(pred, first)).FuncBoolMeaning(pred, 0, nil, &opq)
			c.CountPaths(n)
			if !ok || len(opq) > 0 {
				c.Unknown(nil, fname(c, fn), "domain(charset "+what+")", c.P.Pos(call.Pos()), "the rune predicate handed to strings.ContainsFunc is outside the interval fragment")
				return
			}
			forced, why := impliesResult(c, fn, call, true)
			c.Check(forced && f.Equal(want), nil, fname(c, fn), "domain(charset "+what+")", c.P.Pos(call.Pos()),
				fmt.Sprintf("accepted only if no rune satisfies the predicate, i.e. every rune ∈ %s", f),
				fmt.Sprintf("strings.ContainsFunc form: a rune outside %s is found ⇒ rejected: %v (%s); want every rune ∈ %s", f, forced, why, want))
			return
		}
	}
	checkLoopAccept(c, fn, subject, want, "charset "+what)
}

// checkLoopAccept: subject is defined inside a loop; the set of subject values
// under which an iteration completes (reaches a latch) must equal want.
func checkLoopAccept(c *core.Ctx, fn *ssa.Function, subject string, want an.Set, what string) {
	var def *ssa.BasicBlock
	anchor := subject
	for _, b := range fn.Blocks {
		for _, in := range b.Instrs {
			if v, ok := in.(ssa.Value); ok && an.PathOf(v) == subject && def == nil {
				def = b
			}
		}
	}
	// the subject may only be computed inside a predicate helper the loop body calls
	// (`if !validTag(tag, vals)`): the loop is then found through the ranged value itself
	if i := strings.Index(subject, ")["); def == nil && i > 0 {
		anchor = subject[:i+1]
		for _, b := range fn.Blocks {
			for _, in := range b.Instrs {
				if v, ok := in.(ssa.Value); ok && an.PathOf(v) == anchor && def == nil {
					def = b
				}
			}
		}
	}
	if def == nil {
		// the loop lives in a method / helper that is handed the ranged container and whose refusal
		// makes fn refuse (`if !reqFilterTags(fil.Tags).valid() { return false }`): read there
		if i, j := strings.Index(subject, "("), strings.Index(subject, ")"); i > 0 && j > i {
			container := subject[i+1 : j]
			for _, ci := range calls(fn) {
				call, isCall := ci.(*ssa.Call)
				if !isCall {
					continue
				}
				hf := an.StaticCallee(&call.Call)
				if !an.PrivateHelper(hf) || len(hf.Params) != len(call.Call.Args) || hf.Signature.Results().Len() != 1 {
					continue
				}
				for k, a := range call.Call.Args {
					if an.PathOf(a) != container {
						continue
					}
					if forced, _ := impliesResult(c, fn, call, false); !forced {
						continue
					}
					inner := paramPath(hf, k)
					if k == 0 && hf.Signature.Recv() != nil {
						inner = an.PathOf(hf.Params[0])
					}
					checkLoopAccept(c, hf, subject[:i+1]+inner+subject[j:], want, what)
					return
				}
			}
		}
		c.Unknown(nil, fname(c, fn), "domain("+what+")", c.P.Pos(fn.Pos()), "subject "+subject+" not found")
		return
	}
	h := an.LoopHeaderOf(def)
	if h == nil {
		c.Unknown(nil, fname(c, fn), "domain("+what+")", c.P.Pos(fn.Pos()), "subject "+subject+" is not inside a loop")
		return
	}
	fr := an.ConstFrame(subject)
	acc := an.Empty()
	n := 0
	for _, l := range an.Latches(h) {
		s, k, ok := fr.ReachEdge(fn, an.Edge{From: l, To: h}, an.DefinesPath(fn, anchor), nil)
		if !ok {
			c.Unknown(nil, fname(c, fn), "domain("+what+")", c.P.Pos(fn.Pos()), "too many paths")
			return
		}
		n += k
		acc = acc.Union(s)
	}
	c.CountPaths(n)
	// a loop that carries its verdict in a flag tested by the loop condition (`for i := 0; ok && i < n; i++
	// { ok = isHex(s[i]) }`): every iteration reaches the latch; it *continues* iff the flag it leaves is true
	if acc.Equal(an.Full()) {
		if iff, isIf := an.LastInstr(h).(*ssa.If); isIf {
			if flag, isPhi := iff.Cond.(*ssa.Phi); isPhi && flag.Block() == h {
				if paths, okp := an.IterPaths(h, func(b *ssa.BasicBlock) bool { return len(b.Succs) == 0 }, 1024); okp {
					byFlag := an.Empty()
					for _, p := range paths {
						if len(p) < 2 || p[len(p)-1] != h {
							continue
						}
						var next ssa.Value
						for i, pb := range h.Preds {
							if pb == p[len(p)-2] {
								next = flag.Edges[i]
							}
						}
						if next == nil {
							continue
						}
						t, _ := fr.BoolMeaning(next, p[:len(p)-1], fr.PathMeaning(p[:len(p)-1], nil), 0)
						byFlag = byFlag.Union(t)
					}
					acc = byFlag
				}
			}
		}
	}
	c.Check(acc.Equal(want), nil, fname(c, fn), "domain("+what+")", c.P.Pos(def.Instrs[0].Pos()),
		fmt.Sprintf("iteration continues iff %s ∈ %s", subject, acc), fmt.Sprintf("iteration continues for %s ∈ %s, want %s", subject, acc, want))
}

// allFuncValidator: the function value passed as 2nd argument of the module's
// all-quantifier helper applied to argPath inside fn.
func allFuncValidator(c *core.Ctx, fn *ssa.Function, argPath string) *ssa.Function {
	call := allFuncCall(c, fn, argPath)
	if call == nil {
		return nil
	}
	return funcValue(call.Call.Args[1])
}

func allFuncCall(c *core.Ctx, fn *ssa.Function, argPath string) *ssa.Call {
	for _, ci := range calls(fn) {
		call, ok := ci.(*ssa.Call)
		if !ok || len(call.Call.Args) != 2 {
			continue
		}
		callee := an.StaticCallee(&call.Call)
		if callee == nil || !c.P.InModule(callee) || !(isAllQuantifier(callee) || isAllQuantifierLoop(c, callee)) {
			continue
		}
		if an.PathOf(call.Call.Args[0]) == argPath {
			return call
		}
	}
	return nil
}

func funcValue(v ssa.Value) *ssa.Function {
	switch x := an.Unwrap(v).(type) {
	case *ssa.Function:
		return x
	case *ssa.MakeClosure:
		f, _ := x.Fn.(*ssa.Function)
		return f
	}
	return nil
}

// throughBound: a method value (`m.pred`) or method expression handed to a
// higher-order function is a synthetic wrapper that forwards its parameters to
// the method; the method itself and the index of its first forwarded
// parameter are what a rule looks at.
func throughBound(fn *ssa.Function) (*ssa.Function, int) {
	if fn == nil || fn.Synthetic == "" || len(fn.Blocks) != 1 {
		return fn, 0
	}
	var target *ssa.Function
	n := 0
	for _, in := range fn.Blocks[0].Instrs {
		if ci, ok := in.(ssa.CallInstruction); ok {
			n++
			target = an.StaticCallee(ci.Common())
		}
	}
	if n != 1 || target == nil || target.Signature.Recv() == nil || len(target.Params) != len(fn.Params)+len(fn.FreeVars) {
		return fn, 0
	}
	return target, len(fn.FreeVars)
}

// isAllQuantifier recognises the module's generic helper
//
//	func(vs []T, f func(T) bool) bool { return !slices.ContainsFunc(vs, func(v T) bool { return !f(v) }) }
//
// structurally: returns NOT of ContainsFunc(param0, closure) and the closure
// returns NOT of a call of its free variable (= param1) on its parameter.
func isAllQuantifier(fn *ssa.Function) bool {
	if len(fn.Params) != 2 || fn.Signature.Results().Len() != 1 {
		return false
	}
	rets := an.ReturnBlocks(fn)
	if len(rets) != 1 {
		return false
	}
	r := an.LastInstr(rets[0]).(*ssa.Return)
	not, ok := r.Results[0].(*ssa.UnOp)
	if !ok || not.Op != token.NOT {
		return false
	}
	call, ok := not.X.(*ssa.Call)
	if !ok || !strings.HasPrefix(an.CalleeName(&call.Call), "slices.ContainsFunc") || len(call.Call.Args) != 2 {
		return false
	}
	if call.Call.Args[0] != ssa.Value(fn.Params[0]) {
		return false
	}
	cl, ok := call.Call.Args[1].(*ssa.MakeClosure)
	if !ok || len(cl.Bindings) != 1 {
		return false
	}
	inner := cl.Fn.(*ssa.Function)
	irets := an.ReturnBlocks(inner)
	if len(irets) != 1 {
		return false
	}
	ir := an.LastInstr(irets[0]).(*ssa.Return)
	inot, ok := ir.Results[0].(*ssa.UnOp)
	if !ok || inot.Op != token.NOT {
		return false
	}
	icall, ok := inot.X.(*ssa.Call)
	if !ok || len(icall.Call.Args) != 1 || icall.Call.Args[0] != ssa.Value(inner.Params[0]) {
		return false
	}
	// callee value is the (loaded) free variable bound to param 1
	if an.PathOf(icall.Call.Value) != an.PathOf(fn.Params[1]) {
		return false
	}
	return true
}

// isAllQuantifierLoop: the same helper written as a loop —
//
//	func(vs []T, f func(T) bool) bool { for _, v := range vs { if !f(v) { return false } }; return true }
//
// one call of the function parameter, on the element of a loop that walks every element of the
// slice parameter, whose false verdict forces the result false.
func isAllQuantifierLoop(c *core.Ctx, fn *ssa.Function) bool {
	if len(fn.Params) != 2 || fn.Signature.Results().Len() != 1 || len(fn.Blocks) == 0 {
		return false
	}
	if _, isSlice := fn.Params[0].Type().Underlying().(*types.Slice); !isSlice {
		return false
	}
	if _, isFunc := fn.Params[1].Type().Underlying().(*types.Signature); !isFunc {
		return false
	}
	var pred *ssa.Call
	n := 0
	for _, ci := range calls(fn) {
		call, ok := ci.(*ssa.Call)
		if !ok {
			return false
		}
		if _, isBuiltin := call.Call.Value.(*ssa.Builtin); isBuiltin {
			continue
		}
		n++
		if call.Call.Value == ssa.Value(fn.Params[1]) && len(call.Call.Args) == 1 && an.PathOf(call.Call.Args[0]) == "p:"+fn.Params[0].Name()+"[*]" {
			pred = call
		}
	}
	if pred == nil || n != 1 {
		return false
	}
	if all, _ := forAllLoop(pred.Call.Args[0], pred); !all {
		return false
	}
	ok, _ := impliesFalse(c, fn, pred)
	return ok
}

// ---------------------------------------------------------------- NADDR-SPLIT

func runNaddrSplit(c *core.Ctx) {
	P := c.P
	filValid := P.Method(P.Root, "ReqFilter", "Valid")
	if filValid == nil {
		c.NoAnchor(nil, "ReqFilter.Valid")
		return
	}
	fns := an.RefClosure([]*ssa.Function{filValid}, P.InModule)
	c.CountFuncs(len(fns))
	found := 0
	for _, fn := range fns {
		for _, ci := range calls(fn) {
			call, ok := ci.(*ssa.Call)
			if !ok {
				continue
			}
			name := an.CalleeName(&call.Call)
			if name != "strings.Split" && name != "strings.SplitN" {
				continue
			}
			if s, ok := an.ConstStr(call.Call.Args[1]); !ok || s != ":" {
				continue
			}
			found++
			c.CountSites(1)
			// how is the result's length used?
			lenPath := "len(" + an.PathOf(call) + ")"
			var eqConsts []int64
			an.Instrs(fn, func(in ssa.Instruction) {
				if b, ok := in.(*ssa.BinOp); ok && (b.Op == token.EQL || b.Op == token.NEQ) {
					if an.PathOf(b.X) == lenPath {
						if k, ok := an.ConstInt(b.Y); ok {
							eqConsts = append(eqConsts, k)
						}
					} else if an.PathOf(b.Y) == lenPath {
						if k, ok := an.ConstInt(b.X); ok {
							eqConsts = append(eqConsts, k)
						}
					}
				}
			})
			pos := P.Pos(call.Pos())
			construct := `split(":")`
			switch {
			case name == "strings.Split" && len(eqConsts) > 0:
				c.Bad(nil, fname(c, fn), construct, pos, fmt.Sprintf("strings.Split on ':' with the part count compared for equality with %v: an address kind:pubkey:d whose d contains ':' is refused (use SplitN/Cut)", eqConsts))
			case name == "strings.SplitN":
				n, ok := an.ConstInt(call.Call.Args[2])
				good := ok && n == 3
				for _, k := range eqConsts {
					if k != n {
						good = false
					}
				}
				c.Check(good, nil, fname(c, fn), construct, pos, fmt.Sprintf("SplitN(…, \":\", %d): the last component keeps its colons", n), fmt.Sprintf("SplitN with n=%d and length compared with %v: want n=3 and length 3", n, eqConsts))
			default:
				c.OK(nil, fname(c, fn), construct, pos, "split result length is not compared for equality")
			}
		}
		for _, call := range callsNamed(fn, "strings.Cut") {
			if s, ok := an.ConstStr(call.Call.Args[1]); ok && s == ":" {
				found++
				c.OK(nil, fname(c, fn), `cut(":")`, P.Pos(call.Pos()), "strings.Cut keeps later colons in the remainder")
			}
		}
		// an index-based reader: the *first* colon ends the kind (`IndexByte(s, ':')`); the last one never does
		for _, ci := range calls(fn) {
			call, ok := ci.(*ssa.Call)
			if !ok || len(call.Call.Args) != 2 || !isColon(call.Call.Args[1]) {
				continue
			}
			switch an.CalleeName(&call.Call) {
			case "strings.IndexByte", "strings.Index", "strings.IndexRune":
				found++
				c.CountSites(1)
				c.OK(nil, fname(c, fn), `index(":")`, P.Pos(call.Pos()), "the kind ends at the first colon; what follows is located from there")
			case "strings.LastIndexByte", "strings.LastIndex":
				found++
				c.CountSites(1)
				c.Bad(nil, fname(c, fn), `index(":")`, P.Pos(call.Pos()), "the address is cut at its last colon: an address kind:pubkey:d whose d contains ':' is misread")
			}
		}
	}
	// a kind read digit by digit (`kind = kind*10 + int64(c-'0')`) must not be able to wrap: the number
	// of digits it accumulates is bounded (≤ 18) before the loop — an unbounded run of digits wraps the
	// accumulator around into the valid range, and a malformed address is accepted
	for _, fn := range fns {
		for _, b := range fn.Blocks {
			for _, in := range b.Instrs {
				ph, ok := in.(*ssa.Phi)
				if !ok || !isDigitAccumulator(ph) {
					continue
				}
				c.CountSites(1)
				// … or the accumulator is checked against a small range after every digit
				if lim, okLim := accumulatorCheckedEachRound(P, ph); okLim {
					c.OK(nil, fname(c, fn), "digit-accumulator", P.Pos(ph.Pos()), "after every digit the loop goes on only while the accumulator is ∈ "+lim+": it cannot wrap")
					continue
				}
				bound, bpath := digitLoopBound(ph.Block())
				if bound == nil {
					c.Unknown(nil, fname(c, fn), "digit-accumulator", P.Pos(ph.Pos()), "a decimal accumulator in a loop whose bound is not recognised")
					continue
				}
				set, _, okSet := an.ConstFrame(bpath).ReachSet(fn, ph.Block(), nil, nil)
				c.Check(okSet && set.Subset(an.Range(an.NegInf, 18)), nil, fname(c, fn), "digit-accumulator", P.Pos(ph.Pos()),
					"the digit loop runs at most "+set.Format("")+" times ("+bpath+"): the accumulator cannot wrap",
					"the digit loop is bounded only by "+bpath+" ∈ "+set.Format("")+": a long run of digits wraps the int64 accumulator around, so an address with a kind far outside 0..65535 can be accepted")
			}
		}
	}
	// the shortest well-formed address — one kind digit, ':', 64 hex characters, ':' and an empty d, 67
	// bytes — is accepted: a length guard in front of the reader must not exclude it
	for _, fn := range fns {
		if len(fn.Params) != 1 || fn.Signature.Results().Len() != 1 || len(callsNamed(fn, core.ModulePath+".validPubkey")) == 0 {
			continue
		}
		if bt, ok := fn.Params[0].Type().Underlying().(*types.Basic); !ok || bt.Kind() != types.String {
			continue
		}
		if rb, ok := fn.Signature.Results().At(0).Type().Underlying().(*types.Basic); !ok || rb.Kind() != types.Bool {
			continue
		}
		tps, ok := an.ResultPaths(fn, 0, true)
		if !ok {
			continue
		}
		fr := an.ConstFrame("len(p:" + fn.Params[0].Name() + ")")
		set := an.Empty()
		for _, tp := range tps {
			set = set.Union(fr.PathMeaning(tp.Path, nil))
		}
		c.CountPaths(len(tps))
		const shortest = 1 + 1 + 64 + 1
		c.Check(!an.Range(shortest, shortest).Intersect(set).IsEmpty(), nil, fname(c, fn), "shortest-address", P.Pos(fn.Pos()),
			fmt.Sprintf("accepting paths admit len(address) ∈ %s, which includes the shortest well-formed address (%d bytes: \"k:<64 hex>:\")", set.Format(""), shortest),
			fmt.Sprintf("accepting paths admit only len(address) ∈ %s: the shortest well-formed address (%d bytes: one kind digit, ':', 64-character pubkey, ':' and an empty d — e.g. the address of a kind 0 or 3 event) is refused", set.Format(""), shortest))
	}
	if found == 0 {
		c.Unknown(nil, fname(c, filValid), "address-split", P.Pos(filValid.Pos()), "no split on ':' reachable from ReqFilter.Valid: the 'a' tag validator could not be located")
	}
}

// ---------------------------------------------------------------- DISPATCH-WS

func runDispatchWS(c *core.Ctx) {
	P := c.P
	parse := P.Func(P.Root, "ParseClientMsg")
	if parse == nil {
		c.NoAnchor(nil, "ParseClientMsg")
		return
	}
	c.CountFuncs(1)
	var pat string
	var found bool
	var pos token.Pos
	for _, ci := range calls(parse) {
		call, ok := ci.(*ssa.Call)
		if !ok {
			continue
		}
		name := an.CalleeName(&call.Call)
		if !strings.HasPrefix(name, "(*regexp.Regexp).Find") && !strings.HasPrefix(name, "(*regexp.Regexp).Match") {
			continue
		}
		// receiver = load of a package-level variable initialised by MustCompile(const)
		recv := call.Call.Args[0]
		u, ok := recv.(*ssa.UnOp)
		if !ok {
			continue
		}
		g, ok := u.X.(*ssa.Global)
		if !ok {
			continue
		}
		initFn := P.Root.Func("init")
		an.Instrs(initFn, func(in ssa.Instruction) {
			if st, ok := in.(*ssa.Store); ok && st.Addr == ssa.Value(g) {
				if cc := an.CallOf(st.Val); cc != nil && strings.HasPrefix(an.CalleeName(&cc.Call), "regexp.MustCompile") {
					if s, ok := an.ConstStr(cc.Call.Args[0]); ok {
						pat, found, pos = s, true, cc.Pos()
					}
				}
			}
		})
	}
	if !found {
		// a hand-written label scanner: skip whitespace, '[', skip whitespace, '"', label up to the next '"'
		if okScan, detail, at := labelScanner(c, parse); at != token.NoPos {
			c.CountSites(1)
			c.Check(okScan, nil, fname(c, parse), "pattern#prefix", P.Pos(at), detail,
				detail+"; JSON allows insignificant whitespace (space, TAB, LF, CR) before '[' and between '[' and the label, so a valid message written that way is answered 'not a client msg'")
			return
		}
		c.Unknown(nil, fname(c, parse), "pattern#prefix", P.Pos(parse.Pos()), "ParseClientMsg does not dispatch on a constant regexp: idiom not recognised")
		return
	}
	c.CountSites(1)
	re, err := syntax.Parse(pat, syntax.Perl)
	if err != nil {
		c.Bad(nil, fname(c, parse), "pattern#prefix", P.Pos(pos), "pattern does not parse: "+err.Error())
		return
	}
	re = re.Simplify()
	var seq []*syntax.Regexp
	if re.Op == syntax.OpConcat {
		seq = re.Sub
	} else {
		seq = []*syntax.Regexp{re}
	}
	i := 0
	if i < len(seq) && seq[i].Op == syntax.OpBeginText {
		i++
	}
	isWS := func(r *syntax.Regexp) bool {
		if r.Op != syntax.OpStar || len(r.Sub) != 1 {
			return false
		}
		cc := r.Sub[0]
		has := func(ch rune) bool {
			switch cc.Op {
			case syntax.OpCharClass:
				for k := 0; k+1 < len(cc.Rune); k += 2 {
					if cc.Rune[k] <= ch && ch <= cc.Rune[k+1] {
						return true
					}
				}
			case syntax.OpLiteral:
				return len(cc.Rune) == 1 && cc.Rune[0] == ch
			}
			return false
		}
		return has(' ') && has('\t') && has('\n') && has('\r')
	}
	before, after := false, false
	if i < len(seq) && isWS(seq[i]) {
		before = true
		i++
	}
	okBracket := false
	if i < len(seq) && seq[i].Op == syntax.OpLiteral && len(seq[i].Rune) >= 1 && seq[i].Rune[0] == '[' {
		okBracket = true
		if len(seq[i].Rune) == 1 && i+1 < len(seq) && isWS(seq[i+1]) {
			after = true
		}
	}
	detail := fmt.Sprintf("pattern %q: whitespace admitted before '[': %v, after '[': %v", pat, before, after)
	if !okBracket {
		c.Unknown(nil, fname(c, parse), "pattern#prefix", P.Pos(pos), fmt.Sprintf("pattern %q does not start with ws* '[' — shape not recognised", pat))
		return
	}
	c.Check(before && after, nil, fname(c, parse), "pattern#prefix", P.Pos(pos), detail,
		detail+"; JSON allows insignificant whitespace in both places, so a valid message with leading whitespace is answered 'not a client msg'")
}

// ---------------------------------------------------------------- VAL-EXH

// clientMsgTypes: named struct types of the root package whose pointer
// implements ClientMsg.
func msgTypes(P *core.Program, iface string) []*types.Named {
	it := P.NamedType(P.Root, iface)
	if it == nil {
		return nil
	}
	ifc, ok := it.Underlying().(*types.Interface)
	if !ok {
		return nil
	}
	var out []*types.Named
	sc := P.Root.Pkg.Scope()
	for _, n := range sc.Names() {
		tn, ok := sc.Lookup(n).(*types.TypeName)
		if !ok {
			continue
		}
		nt, ok := tn.Type().(*types.Named)
		if !ok {
			continue
		}
		if _, isStruct := nt.Underlying().(*types.Struct); !isStruct {
			continue
		}
		if types.Implements(types.NewPointer(nt), ifc) {
			out = append(out, nt)
		}
	}
	return out
}

// labelOf returns the constant string returned by the type's label method.
func labelOf(P *core.Program, nt *types.Named, method string) (string, bool) {
	m := P.Method(P.Root, nt.Obj().Name(), method)
	if m == nil {
		return "", false
	}
	rets := an.ReturnBlocks(m)
	if len(rets) != 1 {
		return "", false
	}
	return an.ConstStr(an.LastInstr(rets[0]).(*ssa.Return).Results[0])
}

func runValExh(c *core.Ctx) {
	P := c.P
	valid := P.Func(P.Root, "ValidClientMsg")
	parse := P.Func(P.Root, "ParseClientMsg")
	if valid == nil || parse == nil {
		c.NoAnchor(nil, "ValidClientMsg / ParseClientMsg")
		return
	}
	c.CountFuncs(2)
	tys := msgTypes(P, "ClientMsg")
	if len(tys) == 0 {
		c.NoAnchor(nil, "implementers of ClientMsg")
		return
	}
	for _, nt := range tys {
		name := nt.Obj().Name()
		ptr := types.NewPointer(nt)
		// ValidClientMsg: type assertion to *T whose result is passed to (*T).Valid, and that call's value is returned
		vm := P.Method(P.Root, name, "Valid")
		okValid := false
		var pos token.Pos
		if vm != nil {
			for _, call := range callsTo(valid, vm) {
				pos = call.Pos()
				arg := call.Call.Args[0]
				ta := false
				if e, ok := arg.(*ssa.Extract); ok {
					if t, ok := e.Tuple.(*ssa.TypeAssert); ok && types.Identical(t.AssertedType, ptr) && an.PathOf(t.X) == "p:"+valid.Params[0].Name() {
						ta = true
					}
				}
				if t, ok := arg.(*ssa.TypeAssert); ok && types.Identical(t.AssertedType, ptr) {
					ta = true
				}
				returned := false
				for _, rb := range an.ReturnBlocks(valid) {
					r := an.LastInstr(rb).(*ssa.Return)
					if r.Results[0] == ssa.Value(call) {
						returned = true
					}
					if ph, ok := r.Results[0].(*ssa.Phi); ok {
						for _, e := range ph.Edges {
							if e == ssa.Value(call) {
								returned = true
							}
						}
					}
				}
				if ta && returned {
					okValid = true
				}
			}
		}
		c.Check(okValid, nil, fname(c, valid), "clause["+name+"]", P.Pos(pos),
			"clause asserts *"+name+" and returns its Valid()", "no clause that asserts *"+name+" and returns (*"+name+").Valid(): messages of this type are judged without their own validator")
		// ParseClientMsg: an allocation of T, guarded by label == T's label, decoded with (*T).UnmarshalJSON(b) and returned
		um := P.Method(P.Root, name, "UnmarshalJSON")
		lbl, lok := labelOf(P, nt, "ClientMsgLabel")
		okParse, okLabel := false, false
		var ppos token.Pos
		an.Instrs(parse, func(in ssa.Instruction) {
			a, ok := in.(*ssa.Alloc)
			if !ok || !types.Identical(a.Type(), ptr) {
				return
			}
			ppos = a.Pos()
			if um != nil {
				for _, call := range callsTo(parse, um) {
					if call.Call.Args[0] == ssa.Value(a) && an.PathOf(call.Call.Args[1]) == "p:"+parse.Params[0].Name() {
						okParse = true
					}
				}
			}
			// … or the clause only picks the fresh value and one decode call behind the switch
			// serves all clauses: dst.UnmarshalJSON(b) on the interface the value was put into
			{
				seen := map[ssa.Value]bool{}
				var follow func(v ssa.Value, depth int)
				follow = func(v ssa.Value, depth int) {
					if v == nil || seen[v] || depth > 4 || v.Referrers() == nil {
						return
					}
					seen[v] = true
					for _, r := range *v.Referrers() {
						switch x := r.(type) {
						case *ssa.MakeInterface:
							follow(x, depth+1)
						case *ssa.ChangeInterface:
							follow(x, depth+1)
						case *ssa.Phi:
							follow(x, depth+1)
						case *ssa.Call:
							if x.Call.IsInvoke() && x.Call.Value == v && x.Call.Method.Name() == "UnmarshalJSON" && len(x.Call.Args) == 1 && an.PathOf(x.Call.Args[0]) == "p:"+parse.Params[0].Name() {
								okParse = true
							}
						}
					}
				}
				follow(a, 0)
			}
			// … or through a private helper that is handed the fresh value and calls its
			// UnmarshalJSON (dynamically: the helper takes any client message) with the input
			for _, ci := range calls(parse) {
				hc, isCall := ci.(*ssa.Call)
				if !isCall {
					continue
				}
				g := an.StaticCallee(&hc.Call)
				if !an.PrivateHelper(g) || len(g.Params) != len(hc.Call.Args) {
					continue
				}
				for i, arg := range hc.Call.Args {
					if an.Unwrap(arg) != ssa.Value(a) {
						continue
					}
					an.Instrs(g, func(gin ssa.Instruction) {
						gc, isGC := gin.(*ssa.Call)
						if !isGC {
							return
						}
						// a generic helper instantiated for this message type calls the method statically
						if um != nil && an.StaticCallee(&gc.Call) == um && len(gc.Call.Args) == 2 && an.Unwrap(gc.Call.Args[0]) == ssa.Value(g.Params[i]) &&
							an.PathOfIn(gc.Call.Args[1], &hc.Call) == "p:"+parse.Params[0].Name() {
							okParse = true
						}
						if !gc.Call.IsInvoke() || gc.Call.Method.Name() != "UnmarshalJSON" {
							return
						}
						if an.Unwrap(gc.Call.Value) == ssa.Value(g.Params[i]) && len(gc.Call.Args) == 1 && an.PathOfIn(gc.Call.Args[0], &hc.Call) == "p:"+parse.Params[0].Name() {
							okParse = true
						}
					})
				}
			}
			for _, g := range an.Guards(parse, a.Block()) {
				if b, ok := g.V.(*ssa.BinOp); ok && b.Op == token.EQL && g.True {
					for _, side := range []ssa.Value{b.X, b.Y} {
						if s, ok := an.ConstStr(side); ok && lok && s == lbl {
							okLabel = true
						}
					}
				}
			}
		})
		c.Check(okParse, nil, fname(c, parse), "clause["+name+"]/decode", P.Pos(ppos),
			"instantiates "+name+" and decodes the payload with its UnmarshalJSON", "no clause instantiates "+name+" and decodes the input with (*"+name+").UnmarshalJSON")
		c.Check(okLabel, nil, fname(c, parse), "clause["+name+"]/label", P.Pos(ppos),
			fmt.Sprintf("clause is selected by label %q = %s.ClientMsgLabel()", lbl, name), fmt.Sprintf("clause instantiating %s is not selected by its own label %q", name, lbl))
	}
}

// ---------------------------------------------------------------- VAL-SLICE

// impliesFalse: on every return path on which v was computed and did not
// steer control to its true side, assuming v=false forces the bool result #0
// of fn to be false.
func impliesFalse(c *core.Ctx, fn *ssa.Function, v ssa.Value) (bool, string) {
	return impliesResult(c, fn, v, false)
}

// impliesResult: the same for v = val (val=true: "v true ⇒ result false").
func impliesResult(c *core.Ctx, fn *ssa.Function, v ssa.Value, val bool) (bool, string) {
	// (the verdict of a helper that answers `(bool, error)`: its first result)
	if call, isCall := v.(*ssa.Call); isCall {
		if tup, isT := call.Type().(*types.Tuple); isT && tup.Len() >= 1 && call.Referrers() != nil {
			if bt, isB := tup.At(0).Type().Underlying().(*types.Basic); isB && bt.Kind() == types.Bool {
				for _, r := range *call.Referrers() {
					if ex, isEx := r.(*ssa.Extract); isEx && ex.Index == 0 {
						v = ex
					}
				}
			}
		}
	}
	fr := an.NoSubject()
	fr.Assume = map[ssa.Value]bool{v: val}
	vb := v.(ssa.Instruction).Block()
	seen := 0
	for _, rb := range an.ReturnBlocks(fn) {
		ret := an.LastInstr(rb).(*ssa.Return)
		paths, ok := an.PathsTo(fn, rb, 4096)
		if !ok {
			return false, "too many paths"
		}
		c.CountPaths(len(paths))
	nextPath:
		for _, p := range paths {
			if !p.Contains(vb) {
				continue
			}
			for _, cd := range p.Conds() {
				cv, pol := cd.V, cd.True
				for {
					if u, ok := cv.(*ssa.UnOp); ok && u.Op == token.NOT {
						cv, pol = u.X, !pol
						continue
					}
					break
				}
				if cv == v && pol != val {
					continue nextPath // path assumes the other outcome
				}
				// a branch on a value computed from v (`ok := present && set[k]`; `case a != nil && !a[k]:`):
				// under the assumption the path may be impossible
				if cd.Idx >= 0 && cd.Idx < len(p) {
					ct, cf := fr.BoolMeaning(cd.V, p[:cd.Idx+1], an.Full(), 0)
					if (cd.True && ct.IsEmpty()) || (!cd.True && cf.IsEmpty()) {
						continue nextPath
					}
				}
			}
			seen++
			rv := ret.Results[0]
			t, _ := fr.BoolMeaning(rv, p, an.Full(), 0)
			if !t.IsEmpty() {
				return false, "a path on which the check fails can still return true (" + c.P.Pos(rb.Instrs[len(rb.Instrs)-1].Pos()) + ")"
			}
		}
	}
	if seen == 0 {
		return false, "no return path evaluates the check"
	}
	return true, ""
}

// forcesFailure: like impliesFalse, for validators that report failure as an error as well. v is a
// bool (assumed false) or a call of a function whose last result is an error (assumed non-nil: every
// `err != nil` / `err == nil` test of it is taken accordingly); fn fails when its bool result is false
// or, if its last result is an error, when that error is definitely not nil.
func forcesFailure(c *core.Ctx, fn *ssa.Function, v ssa.Value) (bool, string) {
	assume := map[ssa.Value]bool{}
	if bt, ok := v.Type().Underlying().(*types.Basic); ok && bt.Kind() == types.Bool {
		assume[v] = false
	} else if call, ok := v.(*ssa.Call); ok && call.Referrers() != nil {
		for _, r := range *call.Referrers() {
			ex, ok := r.(*ssa.Extract)
			if !ok || !types.Identical(ex.Type(), types.Universe.Lookup("error").Type()) || ex.Referrers() == nil {
				continue
			}
			for _, r2 := range *ex.Referrers() {
				if b, ok := r2.(*ssa.BinOp); ok && (b.Op == token.EQL || b.Op == token.NEQ) && (an.IsNilConst(b.X) || an.IsNilConst(b.Y)) {
					assume[b] = b.Op == token.NEQ
				}
			}
		}
	}
	if len(assume) == 0 {
		return false, "the check's outcome is not tested"
	}
	res := fn.Signature.Results()
	errMode := res.Len() > 0 && types.Identical(res.At(res.Len()-1).Type(), types.Universe.Lookup("error").Type())
	fr := an.NoSubject()
	fr.Assume = assume
	vb := v.(ssa.Instruction).Block()
	seen := 0
	for _, rb := range an.ReturnBlocks(fn) {
		ret := an.LastInstr(rb).(*ssa.Return)
		paths, ok := an.PathsTo(fn, rb, 4096)
		if !ok {
			return false, "too many paths"
		}
		c.CountPaths(len(paths))
	nextPath:
		for _, p := range paths {
			if !p.Contains(vb) {
				continue
			}
			for _, cd := range p.Conds() {
				cv, pol := stripNot(cd.V, cd.True)
				if want, has := assume[cv]; has && pol != want {
					continue nextPath
				}
				if cd.Idx >= 0 && cd.Idx < len(p) {
					ct, cf := fr.BoolMeaning(cd.V, p[:cd.Idx+1], an.Full(), 0)
					if (cd.True && ct.IsEmpty()) || (!cd.True && cf.IsEmpty()) {
						continue nextPath
					}
				}
			}
			seen++
			rvs := an.ReturnValues(ret)
			if errMode {
				if an.Nilness(resolveRet(rvs[len(rvs)-1], p)) != 1 {
					return false, "a path on which the check fails can still return a nil error (" + c.P.Pos(ret.Pos()) + ")"
				}
				continue
			}
			t, _ := fr.BoolMeaning(ret.Results[0], p, an.Full(), 0)
			if !t.IsEmpty() {
				return false, "a path on which the check fails can still return true (" + c.P.Pos(ret.Pos()) + ")"
			}
		}
	}
	if seen == 0 {
		return false, "no return path evaluates the check"
	}
	return true, ""
}

// forAllLoop: call is applied to elem = X[i] inside a loop; decide from the
// loop's shape that i takes every position 0 … len(X)-1 and that no iteration
// gets back to the loop header without having made the call (`continue`
// before the check). Understood: `for _, e := range X` (go/ssa: index phi from
// -1, tested after the increment) and `for i := 0; i < len(X); i++`.
func forAllLoop(elem ssa.Value, call *ssa.Call) (bool, string) {
	return forAllLoopAt(elem, call.Block())
}

func forAllLoopAt(elem ssa.Value, at *ssa.BasicBlock) (bool, string) {
	u, ok := an.Unwrap(elem).(*ssa.UnOp)
	if !ok || u.Op != token.MUL {
		return false, "the validated value is not an element read"
	}
	ia, ok := u.X.(*ssa.IndexAddr)
	if !ok {
		return false, "the validated value is not a slice element"
	}
	h := an.LoopHeaderOf(ia.Block())
	if h == nil {
		return false, "element read outside a loop"
	}
	// the bound test i < len(X): at the loop header, or — with a compound loop condition
	// (`for i := 0; ok && i < len(X); i++`) — in a later block of the loop that still stands in
	// front of the element access
	var cond *ssa.BinOp
	for b := range an.LoopBlocks(h) {
		iff, isIf := an.LastInstr(b).(*ssa.If)
		if !isIf || !(b == ia.Block() || b.Dominates(ia.Block())) {
			continue
		}
		if bc, isBin := iff.Cond.(*ssa.BinOp); isBin && bc.Op == token.LSS && an.PathOf(bc.Y) == "len("+an.PathOf(ia.X)+")" && bc.X == ia.Index {
			cond = bc
		}
	}
	if cond == nil {
		return false, "loop is not bounded by the length of the validated slice"
	}
	var ph *ssa.Phi
	first := int64(0)
	switch x := ia.Index.(type) {
	case *ssa.Phi:
		ph = x
	case *ssa.BinOp:
		if p2, isP := x.X.(*ssa.Phi); isP && x.Op == token.ADD {
			if k, isK := an.ConstInt(x.Y); isK && k == 1 {
				ph, first = p2, -1
			}
		}
	}
	if ph == nil || ph.Block() != h || cond.X != ia.Index {
		return false, "index is not the loop's induction variable"
	}
	for i, pb := range h.Preds {
		if h.Dominates(pb) {
			nb, ok := ph.Edges[i].(*ssa.BinOp)
			if !ok || nb.Op != token.ADD || nb.X != ssa.Value(ph) {
				return false, "index does not advance by one"
			}
			if k, isK := an.ConstInt(nb.Y); !isK || k != 1 {
				return false, "index does not advance by one"
			}
		} else if k, isK := an.ConstInt(ph.Edges[i]); !isK || k != first {
			return false, "index does not start at the first element"
		}
	}
	paths, ok := an.IterPaths(h, func(b *ssa.BasicBlock) bool { return len(b.Succs) == 0 }, 4096)
	if !ok {
		return false, "too many iteration paths"
	}
	loop := an.LoopBlocks(h)
	for _, p := range paths {
		if p[len(p)-1] == h && len(p) > 1 && !p.Contains(at) {
			// one iteration of THIS loop: a way back to the header through an enclosing loop starts
			// the walk over the next slice afresh
			inside := true
			for _, b := range p {
				if !loop[b] {
					inside = false
				}
			}
			if inside {
				return false, "an iteration can go on to the next element without the check"
			}
		}
	}
	return true, ""
}

func runValSlice(c *core.Ctx) {
	P := c.P
	evValid := P.Method(P.Root, "Event", "Valid")
	filValid := P.Method(P.Root, "ReqFilter", "Valid")
	if evValid == nil || filValid == nil {
		c.NoAnchor(nil, "Event.Valid / ReqFilter.Valid")
		return
	}
	c.CountFuncs(2)
	evVal := map[string]*ssa.Function{}
	// Event: scalar fields
	for _, f := range []string{"ID", "Pubkey", "Kind", "Sig"} {
		call, v := validatorCall(c, evValid, "recv."+f)
		if call == nil {
			c.Bad(nil, fname(c, evValid), "field["+f+"]", P.Pos(evValid.Pos()), "Event.Valid applies no validator to "+f)
			continue
		}
		evVal[f] = v
		ok, why := impliesFalse(c, evValid, call)
		c.Check(ok, nil, fname(c, evValid), "field["+f+"]", P.Pos(call.Pos()), fmt.Sprintf("%s(ev.%s) false ⇒ Valid() false", v.Name(), f), "validator result does not force the verdict: "+why)
	}
	// Event: tags non-nil and every tag validated
	if call := allFuncCall(c, evValid, "recv.Tags"); call == nil {
		// written out as a loop over the tags: an iteration completes only for a tag with
		// at least one element, and leaving the loop early means "invalid"
		hasLoop := false
		an.Instrs(evValid, func(in ssa.Instruction) {
			if v, ok := in.(ssa.Value); ok && an.PathOf(v) == "len(recv.Tags[*])" && an.InLoop(in.Block()) {
				hasLoop = true
			}
		})
		// … or as a loop that hands each tag to the tag validator: `for _, tag := range ev.Tags { if !validTag(tag) { return false } }`
		var perTag *ssa.Call
		for _, ci := range calls(evValid) {
			call, isCall := ci.(*ssa.Call)
			if !isCall || len(call.Call.Args) != 1 || !an.InLoop(call.Block()) {
				continue
			}
			if g := an.StaticCallee(&call.Call); g != nil && P.InModule(g) && an.PathOf(call.Call.Args[0]) == "recv.Tags[*]" {
				perTag = call
			}
		}
		if perTag != nil {
			all, whyAll := forAllLoop(perTag.Call.Args[0], perTag)
			ok, why := impliesFalse(c, evValid, perTag)
			if !all {
				why = whyAll
			}
			c.Check(all && ok, nil, fname(c, evValid), "field[Tags]", P.Pos(perTag.Pos()), "every tag is handed to the tag validator; a failing tag ⇒ Valid() false", "the per-tag validator does not decide for every tag: "+why)
			tv := an.StaticCallee(&perTag.Call)
			fr := an.ConstFrame("len(" + paramPath(tv, 0) + ")")
			t, _, n, okd := fr.FuncBoolMeaning(tv, 0, nil, nil)
			c.CountPaths(n)
			c.Check(okd && t.Equal(an.Range(1, an.PosInf)), nil, fname(c, tv), "domain(len tag)", P.Pos(tv.Pos()), "accepts len(tag) ∈ "+t.String(), "accepts len(tag) ∈ "+t.String()+", want [1,+∞): downstream code reads tag[0]")
		} else if !hasLoop {
			c.Bad(nil, fname(c, evValid), "field[Tags]", P.Pos(evValid.Pos()), "Event.Valid does not apply a per-tag validator to all Tags")
		} else {
			early := false
			if tps, ok := an.ResultPaths(evValid, 0, true); ok {
				for _, tp := range tps {
					last := tp.Path[len(tp.Path)-1]
					if an.InLoop(last) {
						early = true
					}
				}
			} else {
				early = true
			}
			c.Check(!early, nil, fname(c, evValid), "field[Tags]", P.Pos(evValid.Pos()), "every tag is examined; a failing tag ⇒ Valid() false", "the loop over the tags can answer 'valid' before all tags were examined")
			checkLoopAccept(c, evValid, "len(recv.Tags[*])", an.Range(1, an.PosInf), "len tag")
		}
	} else {
		ok, why := impliesFalse(c, evValid, call)
		c.Check(ok, nil, fname(c, evValid), "field[Tags]", P.Pos(call.Pos()), "all-tags validator false ⇒ Valid() false", why)
		if tv := funcValue(call.Call.Args[1]); tv != nil {
			// tag validator: len(tag) >= 1
			fr := an.ConstFrame("len(" + paramPath(tv, 0) + ")")
			t, _, n, ok := fr.FuncBoolMeaning(tv, 0, nil, nil)
			c.CountPaths(n)
			c.Check(ok && t.Equal(an.Range(1, an.PosInf)), nil, fname(c, tv), "domain(len tag)", P.Pos(tv.Pos()), "accepts len(tag) ∈ "+t.String(), "accepts len(tag) ∈ "+t.String()+", want [1,+∞): downstream code reads tag[0] unguarded")
		}
	}
	// Tags != nil
	{
		found := false
		an.Instrs(evValid, func(in ssa.Instruction) {
			if b, ok := in.(*ssa.BinOp); ok {
				if is, _ := nilTest(b, "recv.Tags"); is {
					found = true
				}
			}
		})
		c.Check(found, nil, fname(c, evValid), "field[Tags]/non-nil", P.Pos(evValid.Pos()), "Tags compared with nil", "Event.Valid does not require Tags to be present")
	}
	// Filter: list fields use the same validators as the event's scalar fields
	for _, row := range []struct{ field, same string }{{"IDs", "ID"}, {"Authors", "Pubkey"}, {"Kinds", "Kind"}} {
		call := allFuncCall(c, filValid, "recv."+row.field)
		if call == nil {
			c.Bad(nil, fname(c, filValid), "field["+row.field+"]", P.Pos(filValid.Pos()), "ReqFilter.Valid applies no per-element validator to "+row.field)
			continue
		}
		fv := funcValue(call.Call.Args[1])
		ok, why := impliesFalse(c, filValid, call)
		same := fv != nil && evVal[row.same] != nil && (sameFunc(fv, evVal[row.same]) || sameFunc(evVal[row.same], fv))
		c.Check(ok && same, nil, fname(c, filValid), "field["+row.field+"]", P.Pos(call.Pos()),
			fmt.Sprintf("every element validated by %s (the validator of Event.%s); failure ⇒ invalid", fv.Name(), row.same),
			fmt.Sprintf("elements of %s: forced=%v (%s), validator=%v, want the validator of Event.%s", row.field, ok, why, fv, row.same))
	}
	// Filter: tag values by letter
	letterVal := map[string]*ssa.Function{}
	an.Region(filValid, func(g *ssa.Function) bool { return isAllQuantifier(g) || isAllQuantifierLoop(c, g) }, func(o an.Occ) {
		call, ok := o.In.(*ssa.Call)
		if !ok || len(call.Call.Args) != 2 {
			return
		}
		callee := an.StaticCallee(&call.Call)
		if callee == nil || !(isAllQuantifier(callee) || isAllQuantifierLoop(c, callee)) || o.Path(call.Call.Args[0]) != "rangeval(recv.Tags)" {
			return
		}
		host := call.Parent()
		gs := an.Guards(host, call.Block())
		// (a case with several letters, `case "e", "p":` — each test's true edge enters the body)
		for _, hb := range host.Blocks {
			iff, isIf := an.LastInstr(hb).(*ssa.If)
			if !isIf || len(hb.Succs) != 2 {
				continue
			}
			b, isB := iff.Cond.(*ssa.BinOp)
			if !isB || b.Op != token.EQL {
				continue
			}
			if body := hb.Succs[0]; (body == call.Block() || body.Dominates(call.Block())) && len(body.Preds) > 1 {
				gs = append(gs, an.Cond{V: b, True: true, At: hb})
			}
		}
		for _, g := range gs {
			if b, ok := g.V.(*ssa.BinOp); ok && b.Op == token.EQL && g.True {
				for _, side := range []ssa.Value{b.X, b.Y} {
					if s, ok := an.ConstStr(side); ok {
						letterVal[s] = funcValue(call.Call.Args[1])
						// a failing validator forces "invalid", through every helper level
						okf, why := impliesFalse(c, host, call)
						for i := len(o.Chain) - 1; i >= 0 && okf; i-- {
							okf, why = impliesFalse(c, o.Chain[i].Parent(), o.Chain[i])
						}
						c.Check(okf, nil, fname(c, filValid), "tag["+s+"]/forced", P.Pos(call.Pos()), "#"+s+" values: validator false ⇒ invalid", why)
					}
				}
			}
		}
	})
	// the validator picked into a function variable by the tag letter and applied in one loop:
	// `switch c { case 'e': valid = validID; … default: continue }; for _, v := range vals { if !valid(v) { return } }`
	for _, ci := range calls(filValid) {
		call, ok := ci.(*ssa.Call)
		if !ok || call.Call.IsInvoke() || len(call.Call.Args) != 1 || !an.InLoop(call.Block()) {
			continue
		}
		ph, isPhi := call.Call.Value.(*ssa.Phi)
		if !isPhi || an.PathOf(call.Call.Args[0]) != "rangeval(recv.Tags)[*]" {
			continue
		}
		all, whyAll := forAllLoop(call.Call.Args[0], call)
		okf, why := impliesFalse(c, filValid, call)
		if !all {
			okf, why = false, whyAll
		}
		for i, e := range ph.Edges {
			fv := funcValue(e)
			if fv == nil {
				continue
			}
			pred := ph.Block().Preds[i]
			gs := an.Guards(filValid, pred)
			if iff, isIf := an.LastInstr(pred).(*ssa.If); isIf && len(pred.Succs) == 2 && pred.Succs[0] != pred.Succs[1] {
				gs = append(gs, an.NormCond(an.Cond{V: iff.Cond, True: pred.Succs[0] == ph.Block(), At: pred}))
			}
			for _, g := range gs {
				b, isB := g.V.(*ssa.BinOp)
				if !isB || b.Op != token.EQL || !g.True {
					continue
				}
				for _, pair := range [][2]ssa.Value{{b.X, b.Y}, {b.Y, b.X}} {
					k, isK := an.ConstInt(pair[1])
					if !isK || k < 'A' || k > 'z' {
						continue
					}
					// the compared byte is the first byte of the tag key
					if kp := an.PathOf(pair[0]); kp != "rangekey(recv.Tags)[0]" && kp != "rangekey(recv.Tags)[const:0]" {
						continue
					}
					letter := string(rune(k))
					letterVal[letter] = fv
					c.Check(okf, nil, fname(c, filValid), "tag["+letter+"]/forced", P.Pos(call.Pos()), "#"+letter+" values: validator false ⇒ invalid", why)
				}
			}
		}
	}
	for _, row := range []struct{ letter, same string }{{"e", "ID"}, {"p", "Pubkey"}} {
		fv := letterVal[row.letter]
		c.Check(fv != nil && evVal[row.same] != nil && (sameFunc(fv, evVal[row.same]) || sameFunc(evVal[row.same], fv) || sameBody(fv, evVal[row.same])), nil, fname(c, filValid), "tag["+row.letter+"]", P.Pos(filValid.Pos()),
			"#"+row.letter+" values validated like Event."+row.same, "#"+row.letter+" values are not validated by the validator of Event."+row.same)
	}
	if av := letterVal["a"]; av == nil {
		c.Bad(nil, fname(c, filValid), "tag[a]", P.Pos(filValid.Pos()), "#a values have no validator")
	} else {
		// the address validator applies the kind and pubkey validators to the parts
		kindOK, pkOK := false, false
		// (the two validators may be applied in a method of a small address value the validator
		// parses the string into: `addr, ok := parseEventAddress(s); return ok && addr.valid()` —
		// then their refusal must make that method refuse, and its refusal the validator)
		an.Region(av, nil, func(o an.Occ) {
			call, ok := o.In.(*ssa.Call)
			if !ok {
				return
			}
			sc := an.StaticCallee(&call.Call)
			if sc == nil {
				return
			}
			forces := func() bool {
				if okf, _ := forcesFailure(c, call.Parent(), call); !okf {
					return false
				}
				for _, site := range o.Chain {
					if okf, _ := forcesFailure(c, site.Parent(), site); !okf {
						return false
					}
				}
				return true
			}
			if evVal["Kind"] != nil && sameFunc(sc, evVal["Kind"]) && forces() {
				kindOK = true
			}
			if evVal["Pubkey"] != nil && sameFunc(sc, evVal["Pubkey"]) && forces() {
				pkOK = true
			}
		})
		if !kindOK {
			// the kind part checked in place: its accepted range must be the event kind's
			subj := ""
			an.Instrs(av, func(in ssa.Instruction) {
				if v, ok := in.(ssa.Value); ok {
					if p := an.PathOf(v); strings.HasPrefix(p, "call:strconv.ParseInt(") && strings.HasSuffix(p, "#0") {
						subj = p
					}
				}
			})
			if subj != "" {
				t, _, _, ok := an.ConstFrame(subj).FuncBoolMeaning(av, 0, nil, nil)
				kindOK = ok && t.Equal(an.Range(0, 65535))
			}
		}
		// the kind part is read as a decimal integer wide enough for every kind: a 16-bit signed
		// parse refuses 32768…65535 before the kind validator is asked
		parseOK, parseWhy := true, ""
		var avCalls []*ssa.Call
		an.Region(av, nil, func(o an.Occ) {
			if call, ok := o.In.(*ssa.Call); ok {
				avCalls = append(avCalls, call)
			}
		})
		for _, call := range avCalls {
			switch an.CalleeName(&call.Call) {
			case "strconv.ParseInt", "strconv.ParseUint":
				base, okB := an.ConstInt(call.Call.Args[1])
				bits, okS := an.ConstInt(call.Call.Args[2])
				signed := an.CalleeName(&call.Call) == "strconv.ParseInt"
				minBits := int64(17)
				if !signed {
					minBits = 16
				}
				if !okB || !okS || (base != 10 && base != 0) || (bits != 0 && bits < minBits) {
					parseOK = false
					parseWhy = fmt.Sprintf("%s(_, %v, %v) cannot represent every kind in [0,65535] in decimal", an.CalleeName(&call.Call), call.Call.Args[1], call.Call.Args[2])
				}
				if base == 0 {
					parseOK = false
					parseWhy = "base 0 also accepts 0x…/0o… spellings of the kind"
				}
			}
		}
		c.Check(kindOK && pkOK && parseOK, nil, fname(c, av), "tag[a]", P.Pos(av.Pos()), "address parts validated by the kind and pubkey validators; the kind is parsed as a decimal integer of sufficient width", fmt.Sprintf("address validator: kind part validated=%v, pubkey part validated=%v, kind parse ok=%v %s", kindOK, pkOK, parseOK, parseWhy))
	}
	// Message types delegate
	for _, row := range []struct {
		typ, field string
		filters    bool
	}{{"ClientEventMsg", "Event", false}, {"ClientAuthMsg", "Event", false}, {"ClientReqMsg", "ReqFilters", true}, {"ClientCountMsg", "ReqFilters", true}} {
		m := P.Method(P.Root, row.typ, "Valid")
		if m == nil {
			c.NoAnchor(nil, row.typ+".Valid")
			continue
		}
		c.CountFuncs(1)
		if !row.filters {
			var call *ssa.Call
			for _, cl := range callsTo(m, evValid) {
				if an.PathOf(cl.Call.Args[0]) == "recv."+row.field {
					call = cl
				}
			}
			if call == nil {
				c.Bad(nil, fname(c, m), "delegate[Event]", P.Pos(m.Pos()), "does not call Event.Valid on its event")
				continue
			}
			ok, why := impliesFalse(c, m, call)
			c.Check(ok, nil, fname(c, m), "delegate[Event]", P.Pos(call.Pos()), "msg.Event.Valid() false ⇒ invalid", why)
			continue
		}
		// the all-quantifier over the filters, in Valid itself or in a predicate helper
		var occ *an.Occ
		an.Region(m, func(g *ssa.Function) bool { return isAllQuantifier(g) || isAllQuantifierLoop(c, g) }, func(o an.Occ) {
			cl, isCall := o.In.(*ssa.Call)
			if !isCall || len(cl.Call.Args) != 2 {
				return
			}
			callee := an.StaticCallee(&cl.Call)
			if callee == nil || !c.P.InModule(callee) || !(isAllQuantifier(callee) || isAllQuantifierLoop(c, callee)) {
				return
			}
			if o.Path(cl.Call.Args[0]) == "recv."+row.field {
				o := o
				occ = &o
			}
		})
		if occ == nil {
			// written out as a loop over the filters (in Valid or a helper): every position is
			// visited, a failing filter forces "invalid" and "valid" is not answered from inside the loop
			var lo *an.Occ
			an.Region(m, nil, func(o an.Occ) {
				cl, isCall := o.In.(*ssa.Call)
				if !isCall || an.StaticCallee(&cl.Call) != filValid {
					return
				}
				if p := o.Path(cl.Call.Args[0]); p == "recv."+row.field+"[*]" || p == "rangeval(recv."+row.field+")" {
					o := o
					lo = &o
				}
			})
			if lo == nil {
				c.Bad(nil, fname(c, m), "delegate[filters]", P.Pos(m.Pos()), "does not validate every filter")
				continue
			}
			call := lo.In.(*ssa.Call)
			host := call.Parent()
			ok, why := forAllLoop(call.Call.Args[0], call)
			if ok {
				ok, why = impliesFalse(c, host, call)
				for i := len(lo.Chain) - 1; i >= 0 && ok; i-- {
					ok, why = impliesFalse(c, lo.Chain[i].Parent(), lo.Chain[i])
				}
			}
			if ok {
				if tps, okp := an.ResultPaths(host, 0, true); okp {
					for _, tp := range tps {
						if an.InLoop(tp.Path[len(tp.Path)-1]) {
							ok, why = false, "the loop over the filters can answer 'valid' before all filters were examined"
						}
					}
				} else {
					ok, why = false, "too many paths"
				}
			}
			c.Check(ok, nil, fname(c, m), "delegate[filters]", P.Pos(lo.Site().Pos()), "a loop applies Valid() to every filter; a failing filter ⇒ invalid", why)
			fr := an.ConstFrame("len(recv." + row.field + ")")
			t, _, n, okp := fr.FuncBoolMeaning(m, 0, nil, nil)
			c.CountPaths(n)
			c.Check(okp && t.Equal(an.Range(1, an.PosInf)), nil, fname(c, m), "domain(len filters)", P.Pos(m.Pos()), "valid only with len(filters) ∈ "+t.String(), "valid with len(filters) ∈ "+t.String()+", want [1,+∞)")
			continue
		}
		call := occ.In.(*ssa.Call)
		inner := funcValue(call.Call.Args[1])
		innerOK := false
		if inner != nil {
			if sameFunc(inner, filValid) {
				innerOK = true
			}
			for _, cl := range callsTo(inner, filValid) {
				if len(inner.Params) == 1 && cl.Call.Args[0] == ssa.Value(inner.Params[0]) {
					for _, rb := range an.ReturnBlocks(inner) {
						if an.LastInstr(rb).(*ssa.Return).Results[0] == ssa.Value(cl) {
							innerOK = true
						}
					}
				}
			}
		}
		// a false verdict of the quantifier forces "invalid" — through every helper level
		ok, why := impliesFalse(c, call.Parent(), call)
		for i := len(occ.Chain) - 1; i >= 0 && ok; i-- {
			ok, why = impliesFalse(c, occ.Chain[i].Parent(), occ.Chain[i])
		}
		c.Check(ok && innerOK, nil, fname(c, m), "delegate[filters]", P.Pos(occ.Site().Pos()), "every filter's Valid() must hold", fmt.Sprintf("forced=%v (%s) per-filter Valid=%v", ok, why, innerOK))
		// non-empty filter list
		fr := an.ConstFrame("len(recv." + row.field + ")")
		t, _, n, okp := fr.FuncBoolMeaning(m, 0, nil, nil)
		c.CountPaths(n)
		c.Check(okp && t.Equal(an.Range(1, an.PosInf)), nil, fname(c, m), "domain(len filters)", P.Pos(m.Pos()), "valid only with len(filters) ∈ "+t.String(), "valid with len(filters) ∈ "+t.String()+", want [1,+∞)")
	}
}

// isDigitAccumulator: ph is a loop-carried integer updated as ph*10 + x.
func isDigitAccumulator(ph *ssa.Phi) bool {
	for _, e := range ph.Edges {
		add, ok := e.(*ssa.BinOp)
		if !ok || add.Op != token.ADD {
			continue
		}
		for _, side := range []ssa.Value{add.X, add.Y} {
			mul, ok := side.(*ssa.BinOp)
			if !ok || mul.Op != token.MUL {
				continue
			}
			for i, m := range []ssa.Value{mul.X, mul.Y} {
				other := mul.Y
				if i == 1 {
					other = mul.X
				}
				if k, isK := an.ConstInt(other); m == ssa.Value(ph) && isK && k == 10 {
					return true
				}
			}
		}
	}
	return false
}

// digitLoopBound: what bounds the number of iterations of the loop headed at (or around) block h — the
// right-hand side of its `i < B` test, or the length of the string it ranges over — with B's access
// path (the subject the interval engine is asked about).
func digitLoopBound(h *ssa.BasicBlock) (ssa.Value, string) {
	hdr := an.LoopHeaderOf(h)
	if hdr == nil {
		hdr = h
	}
	for blk := range an.LoopBlocks(hdr) {
		ifi, ok := an.LastInstr(blk).(*ssa.If)
		if !ok {
			continue
		}
		// exits the loop on one edge
		exits := false
		for _, sc := range blk.Succs {
			if !an.LoopBlocks(hdr)[sc] {
				exits = true
			}
		}
		if !exits {
			continue
		}
		if bin, ok := ifi.Cond.(*ssa.BinOp); ok && (bin.Op == token.LSS || bin.Op == token.LEQ) {
			if _, isPhi := bin.X.(*ssa.Phi); isPhi {
				return bin.Y, an.PathOf(bin.Y)
			}
		}
		// range over a string: `ok` of Next
		if ex, ok := ifi.Cond.(*ssa.Extract); ok {
			if nx, ok := ex.Tuple.(*ssa.Next); ok && nx.IsString {
				if rg, ok := nx.Iter.(*ssa.Range); ok {
					return rg.X, "len(" + an.PathOf(rg.X) + ")"
				}
			}
		}
	}
	return nil, ""
}

// accumulatorCheckedEachRound: the value ph takes after a digit (ph*10 + x) is tested inside the loop
// by a module predicate on one integer (`if !validKind(kind) { return false }`), the loop continues
// only on the predicate's true edge, and the predicate is true only on a range far from overflow.
func accumulatorCheckedEachRound(P *core.Program, ph *ssa.Phi) (string, bool) {
	hdr := an.LoopHeaderOf(ph.Block())
	if hdr == nil {
		hdr = ph.Block()
	}
	loop := an.LoopBlocks(hdr)
	for _, e := range ph.Edges {
		add, ok := e.(*ssa.BinOp)
		if !ok || add.Op != token.ADD || add.Referrers() == nil {
			continue
		}
		for _, r := range *add.Referrers() {
			call, ok := r.(*ssa.Call)
			if !ok || !loop[call.Block()] || len(call.Call.Args) != 1 {
				continue
			}
			g := an.StaticCallee(&call.Call)
			if g == nil || !P.InModule(g) || len(g.Params) != 1 || g.Signature.Results().Len() != 1 {
				continue
			}
			t, _, _, okM := an.ConstFrame("p:"+g.Params[0].Name()).FuncBoolMeaning(g, 0, nil, nil)
			if !okM || !t.Subset(an.Range(-100000000000000000, 100000000000000000)) {
				continue
			}
			// the false edge leaves the loop
			ifi, ok := an.LastInstr(call.Block()).(*ssa.If)
			if !ok {
				continue
			}
			v, pol := stripNot(ifi.Cond, true)
			if v != ssa.Value(call) {
				continue
			}
			// Succs[0] is taken when Cond is true; the predicate is false on Succs[0] iff pol is false
			falseSucc := call.Block().Succs[1]
			if !pol {
				falseSucc = call.Block().Succs[0]
			}
			if !loop[falseSucc] {
				return t.Format(""), true
			}
		}
	}
	return "", false
}

// labelScanner: ParseClientMsg finds its label with a hand-written scanner. Recognised: a private
// whitespace skipper W (a loop that drops the first byte while it equals one of some constants), applied
// before the test for '[' and again between that test and the test for '"'. The set of bytes W skips
// is computed by the interval engine from the loop's own condition and must be exactly JSON's
// insignificant whitespace {TAB, LF, CR, space}. at == NoPos: no scanner of that form.
func labelScanner(c *core.Ctx, parse *ssa.Function) (bool, string, token.Pos) {
	var host *ssa.Function
	var skipper *ssa.Function
	var calls2 []*ssa.Call
	an.Region(parse, nil, func(o an.Occ) {
		call, ok := o.In.(*ssa.Call)
		if !ok {
			return
		}
		g := an.StaticCallee(&call.Call)
		if !an.PrivateHelper(g) || len(g.Params) != 1 || g.Signature.Results().Len() != 1 || !types.Identical(g.Params[0].Type(), g.Signature.Results().At(0).Type()) {
			return
		}
		if _, isSl := g.Params[0].Type().Underlying().(*types.Slice); !isSl {
			if bt, isB := g.Params[0].Type().Underlying().(*types.Basic); !isB || bt.Kind() != types.String {
				return
			}
		}
		if !an.InLoop(g.Blocks[len(g.Blocks)-1]) && len(g.Blocks) < 3 {
			return
		}
		if skipper != nil && skipper != g {
			return
		}
		skipper, host = g, call.Parent()
		calls2 = append(calls2, call)
	})
	if skipper == nil || len(calls2) < 2 {
		return false, "", token.NoPos
	}
	// the byte tests of the host: '[' and '"'
	var cmpBr, cmpQ *ssa.BinOp
	an.Instrs(host, func(in ssa.Instruction) {
		b, ok := in.(*ssa.BinOp)
		if !ok || (b.Op != token.EQL && b.Op != token.NEQ) {
			return
		}
		if k, isK := an.ConstInt(b.Y); isK {
			if k == '[' && cmpBr == nil {
				cmpBr = b
			}
			if k == '"' && cmpQ == nil {
				cmpQ = b
			}
		}
	})
	if cmpBr == nil || cmpQ == nil {
		return false, "", token.NoPos
	}
	var w1, w2 *ssa.Call
	for _, cl := range calls2 {
		if cl.Parent() != host {
			continue
		}
		if an.InstrDominates(cl, cmpBr) {
			w1 = cl
		}
		if an.InstrDominates(cmpBr, cl) && an.InstrDominates(cl, cmpQ) {
			w2 = cl
		}
	}
	// the set of bytes the skipper drops: the values of its first byte on the edge that goes round the loop
	var subj ssa.Value
	an.Instrs(skipper, func(in ssa.Instruction) {
		if u, ok := in.(*ssa.UnOp); ok && u.Op == token.MUL {
			if ia, ok := u.X.(*ssa.IndexAddr); ok {
				if k, isK := an.ConstInt(ia.Index); isK && k == 0 && subj == nil {
					subj = u
				}
			}
		}
		if ix, ok := in.(*ssa.Index); ok && subj == nil {
			if k, isK := an.ConstInt(ix.Index); isK && k == 0 {
				subj = ix
			}
		}
	})
	skipped := an.Empty()
	if subj != nil {
		sp := an.PathOf(subj)
		fr := an.Frame{
			IsSubject: func(v ssa.Value) bool { return an.PathOf(v) == sp },
			Term:      func(v ssa.Value) (int64, bool) { return an.ConstInt(v) },
			Domain:    an.Range(0, 255),
		}
		// the latch: the block that re-slices (drops the byte) and returns to the header
		for _, b := range skipper.Blocks {
			for _, in := range b.Instrs {
				if sl, ok := in.(*ssa.Slice); ok && an.InLoop(b) {
					if k, isK := an.ConstInt(sl.Low); isK && k == 1 {
						set, n, okS := fr.ReachSet(skipper, b, nil, nil)
						c.CountPaths(n)
						if okS {
							skipped = skipped.Union(set)
						}
					}
				}
			}
		}
	}
	want := an.Range(9, 10).Union(an.Range(13, 13)).Union(an.Range(32, 32))
	before, after := w1 != nil, w2 != nil
	detail := fmt.Sprintf("label scanner: whitespace skipped before '[': %v, after '[': %v; %s skips bytes ∈ %s (JSON whitespace is %s)", before, after, skipper.Name(), skipped.String(), want.String())
	return before && after && skipped.Equal(want), detail, skipper.Pos()
}

// sameBody: two small functions with the same signature whose SSA is identical instruction by
// instruction once their parameter names are blanked (`validID` and `validPubkey`: both `len(s) ==
// 64 && validHexString(s)`): the same predicate under two names.
func sameBody(f, g *ssa.Function) bool {
	if f == nil || g == nil || len(f.Blocks) == 0 || len(f.Blocks) != len(g.Blocks) || len(f.Blocks) > 8 || len(f.Params) != len(g.Params) || !types.Identical(f.Signature, g.Signature) {
		return false
	}
	blank := func(fn *ssa.Function, s string) string {
		for _, p := range fn.Params {
			re := regexp.MustCompile(`\b` + regexp.QuoteMeta(p.Name()) + `\b`)
			s = re.ReplaceAllString(s, "_")
		}
		return s
	}
	for i := range f.Blocks {
		a, b := f.Blocks[i], g.Blocks[i]
		if len(a.Instrs) != len(b.Instrs) || len(a.Succs) != len(b.Succs) {
			return false
		}
		for j := range a.Succs {
			if a.Succs[j].Index != b.Succs[j].Index {
				return false
			}
		}
		for j := range a.Instrs {
			if _, dbg := a.Instrs[j].(*ssa.DebugRef); dbg {
				if _, dbg2 := b.Instrs[j].(*ssa.DebugRef); !dbg2 {
					return false
				}
				continue
			}
			if blank(f, a.Instrs[j].String()) != blank(g, b.Instrs[j].String()) {
				return false
			}
		}
	}
	return true
}
