package rules

import (
	"fmt"
	"go/token"
	"strings"

	"golang.org/x/tools/go/ssa"

	"mocverif/internal/an"
	"mocverif/internal/core"
)

// ADDR-CUT: an address `kind:pubkey:d` ends in free text — the d value may itself contain
// colons. Code on the deletion-request paths (the cache's Add, the SQLite insert) that takes an
// address apart may therefore only rely on the first two separators: cutting at the *last* colon,
// or requiring an exact / maximal number of colon-separated parts, misreads every address whose d
// value contains a colon (the request is kept, its target is neither removed nor blocked).

func init() {
	reg(&core.RuleInfo{Name: "ADDR-CUT", Props: []string{"C05", "C06"}, Engine: "PROV", Floor: 2, Confirmed: 2,
		Doc: "deletion references are taken apart by their first two colons only (the d value is free text)", Run: runAddrCut})
}

func runAddrCut(c *core.Ctx) {
	P := c.P
	roots := []struct {
		fn   *ssa.Function
		prop string
	}{
		{P.Method(P.Root, "EventCache", "Add"), "C05"},
		{P.Func(P.Sqlite, "insertEvents"), "C06"},
	}
	for _, r := range roots {
		if r.fn == nil {
			c.NoAnchor([]string{r.prop}, "EventCache.Add / sqlite.insertEvents")
			continue
		}
		fns := an.RefClosure([]*ssa.Function{r.fn}, P.InModule)
		c.CountFuncs(len(fns))
		nCuts := 0
		var bad []string
		for _, fn := range fns {
			an.Instrs(fn, func(in ssa.Instruction) {
				call, ok := in.(*ssa.Call)
				if !ok {
					return
				}
				name := an.CalleeName(&call.Call)
				if !strings.HasPrefix(name, "strings.") && !strings.HasPrefix(name, "bytes.") {
					return
				}
				short := name[strings.Index(name, ".")+1:]
				if len(call.Call.Args) < 2 || !isColon(call.Call.Args[1]) {
					return
				}
				nCuts++
				c.CountSites(1)
				switch short {
				case "LastIndex", "LastIndexByte", "LastIndexAny":
					bad = append(bad, fmt.Sprintf("%s cuts at the last ':' (%s)", short, P.Pos(call.Pos())))
				case "Split", "SplitN", "SplitAfter", "SplitAfterN":
					limit := int64(-1)
					if len(call.Call.Args) == 3 {
						if k, ok := an.ConstInt(call.Call.Args[2]); ok {
							limit = k
						}
					}
					if limit >= 0 && limit <= 3 && limit != 0 {
						return // at most three parts: the third is the whole remainder
					}
					// unbounded split: a part from the third on is only a piece of the d value (`elems[2]` of
					// "30023:<pk>:https://x" is "https")
					for _, ix := range constIndexes(call) {
						if ix.k >= 2 {
							bad = append(bad, fmt.Sprintf("part #%d of an unbounded split on ':' is taken for the d value (%s): a d value containing ':' is truncated", ix.k, P.Pos(ix.pos)))
						}
					}
					// … and the number of parts may only be bounded from below
					for _, cmp := range lenComparisons(call) {
						if cmp.upper {
							bad = append(bad, fmt.Sprintf("the number of ':'-separated parts is required to be %s %d (%s)", cmp.op, cmp.k, P.Pos(cmp.pos)))
						}
					}
				}
			})
		}
		c.Check(len(bad) == 0, []string{r.prop}, fname(c, r.fn), "address-cuts", P.Pos(r.fn.Pos()),
			fmt.Sprintf("%d place(s) on the deletion-request path take a string apart at ':'; none depends on the last colon or on an upper bound of the number of parts", nCuts),
			"a deletion reference is taken apart in a way that misreads addresses whose d value contains ':': "+strings.Join(bad, "; ")+" — such a request is retained, but its target is neither removed nor blocked")
	}
}

func isColon(v ssa.Value) bool {
	if s, ok := an.ConstStr(v); ok {
		return s == ":"
	}
	if k, ok := an.ConstInt(v); ok {
		return k == ':'
	}
	return false
}

type lenCmp struct {
	op    string
	k     int64
	upper bool
	pos   token.Pos
}

// lenComparisons: comparisons of len(<result of call>) with a constant, and whether they bound
// the length from above on either outcome that keeps the value (==, !=, >, <= with k ≥ 3 do;
// <, >= only say "at least k").
func lenComparisons(call *ssa.Call) []lenCmp {
	var out []lenCmp
	var walk func(v ssa.Value, depth int)
	seen := map[ssa.Value]bool{}
	walk = func(v ssa.Value, depth int) {
		if depth > 4 || v.Referrers() == nil || seen[v] {
			return
		}
		seen[v] = true
		for _, r := range *v.Referrers() {
			switch x := r.(type) {
			case *ssa.Call:
				if b, ok := x.Call.Value.(*ssa.Builtin); ok && b.Name() == "len" {
					for _, r2 := range *x.Referrers() {
						bin, ok := r2.(*ssa.BinOp)
						if !ok {
							continue
						}
						other, lenLeft := bin.Y, true
						if bin.Y == ssa.Value(x) {
							other, lenLeft = bin.X, false
						}
						k, isK := an.ConstInt(other)
						if !isK {
							continue
						}
						op := bin.Op
						if !lenLeft { // k OP len  ≡  len OP' k
							switch op {
							case token.LSS:
								op = token.GTR
							case token.GTR:
								op = token.LSS
							case token.LEQ:
								op = token.GEQ
							case token.GEQ:
								op = token.LEQ
							}
						}
						upper := false
						switch op {
						case token.EQL, token.NEQ:
							upper = k >= 3
						case token.GTR, token.LEQ:
							upper = k >= 3
						}
						out = append(out, lenCmp{op: op.String(), k: k, upper: upper, pos: bin.Pos()})
					}
				}
				// handed to a module helper: what the helper does with its parameter
				if g := an.StaticCallee(&x.Call); g != nil && len(g.Blocks) > 0 {
					for i, a := range x.Call.Args {
						if a == v && i < len(g.Params) {
							walk(g.Params[i], depth+1)
						}
					}
				}
			case *ssa.Phi:
				walk(x, depth+1)
			case *ssa.Store:
				if a, ok := x.Addr.(*ssa.Alloc); ok {
					for _, r2 := range *a.Referrers() {
						if u, ok := r2.(*ssa.UnOp); ok && u.Op == token.MUL {
							walk(u, depth+1)
						}
					}
				}
			}
		}
	}
	walk(call, 0)
	return out
}

type constIndex struct {
	k   int64
	pos token.Pos
}

// constIndexes: the constant indexes at which the slice result of call is read (followed through
// phis, local variables and module helpers the slice is handed to).
func constIndexes(call *ssa.Call) []constIndex {
	var out []constIndex
	seen := map[ssa.Value]bool{}
	var walk func(v ssa.Value, depth int)
	walk = func(v ssa.Value, depth int) {
		if depth > 4 || v.Referrers() == nil || seen[v] {
			return
		}
		seen[v] = true
		for _, r := range *v.Referrers() {
			switch x := r.(type) {
			case *ssa.IndexAddr:
				if k, ok := an.ConstInt(x.Index); ok && x.X == v {
					out = append(out, constIndex{k, x.Pos()})
				}
			case *ssa.Index:
				if k, ok := an.ConstInt(x.Index); ok && x.X == v {
					out = append(out, constIndex{k, x.Pos()})
				}
			case *ssa.Phi:
				walk(x, depth+1)
			case *ssa.Call:
				if g := an.StaticCallee(&x.Call); g != nil && len(g.Blocks) > 0 {
					for i, a := range x.Call.Args {
						if a == v && i < len(g.Params) {
							walk(g.Params[i], depth+1)
						}
					}
				}
			case *ssa.Store:
				if a, ok := x.Addr.(*ssa.Alloc); ok && x.Val == v {
					for _, r2 := range *a.Referrers() {
						if u, ok := r2.(*ssa.UnOp); ok && u.Op == token.MUL {
							walk(u, depth+1)
						}
					}
				}
			}
		}
	}
	walk(call, 0)
	return out
}
