package an

import (
	"go/token"
	"go/types"

	"golang.org/x/tools/go/ssa"
)

// Accept paths: instead of asking which tests dominate a particular
// `return true` block (which depends on how the author spelled the function:
// early returns, a merged `a && b` result, a switch), ask under which
// conditions result #idx of the function may have a given truth value: for
// every feasible path to a return, the branch conditions taken plus — when
// the returned value is itself a computed boolean — that value's own truth.

// CondPath: a path to a return with everything known to hold on it.
type CondPath struct {
	Path  Path
	Conds []Cond // branch conditions and Extra, negations stripped into the polarity
	Extra []Cond // the part of Conds that comes from the returned value itself
	// Sub: the paths taken inside private helpers whose verdicts this path tested
	// (ResultPathsDeep); Conds already contains their conditions.
	Sub []CondPath
}

// Visits: the path (or a helper path below it) passes through block b.
func (cp CondPath) Visits(b *ssa.BasicBlock) bool {
	if cp.Path.Contains(b) {
		return true
	}
	for _, s := range cp.Sub {
		if s.Visits(b) {
			return true
		}
	}
	return false
}

// Meaning: the subject values under which the path is taken (frame f).
func (cp CondPath) Meaning(f Frame) Set {
	s := f.PathMeaning(cp.Path, nil)
	for _, c := range cp.Extra {
		if a, ok := f.Atom(c.V, c.True); ok {
			s = s.Intersect(a)
		}
	}
	for _, sub := range cp.Sub {
		s = s.Intersect(sub.Meaning(f))
	}
	return s
}

// NormCond strips negations into the polarity.
func NormCond(c Cond) Cond {
	for {
		u, ok := c.V.(*ssa.UnOp)
		if !ok || u.Op != token.NOT {
			return c
		}
		c.V = u.X
		c.True = !c.True
	}
}

// valueConds: the conditions under which bool v, evaluated at the end of
// path p, has truth value pol. feasible=false: it cannot.
func valueConds(v ssa.Value, p Path, pol bool, depth int) (conds []Cond, feasible bool) {
	if depth > 16 {
		return []Cond{{V: v, True: pol}}, true
	}
	switch x := v.(type) {
	case *ssa.Const:
		isTrue := x.Value != nil && x.Value.String() == "true"
		return nil, isTrue == pol
	case *ssa.Phi:
		// the edge taken is the LAST occurrence of the phi's block on the path
		for i := len(p) - 1; i >= 1; i-- {
			if p[i] == x.Block() {
				for j, pb := range x.Block().Preds {
					if pb == p[i-1] {
						return valueConds(x.Edges[j], p[:i], pol, depth+1)
					}
				}
			}
		}
	case *ssa.UnOp:
		if x.Op == token.NOT {
			return valueConds(x.X, p, !pol, depth+1)
		}
		if x.Op == token.MUL {
			if r := resolveRetVal(x, p); r != ssa.Value(x) {
				return valueConds(r, p, pol, depth+1)
			}
		}
	}
	return []Cond{{V: v, True: pol}}, true
}

// ReachConds: for every feasible path from fn's entry to block b, what holds
// on it — the branch conditions taken, with a branch on a computed boolean
// (`ok := a && b; if !ok {…}`, a phi) resolved into the conditions of the edge
// the path took. Paths on which such a value cannot have the polarity the
// branch needs are dropped. "Test T guards b" is then "every path has T",
// however the author combined the tests.
func ReachConds(fn *ssa.Function, b *ssa.BasicBlock) (out [][]Cond, ok bool) {
	paths, pok := PathsTo(fn, b, 4096)
	if !pok {
		return nil, false
	}
	for _, p := range paths {
		if cs, feasible := pathConds(p); feasible {
			out = append(out, cs)
		}
	}
	return out, true
}

// pathConds: what holds on one path (see ReachConds); feasible=false: the path cannot be taken.
// ReachCondPaths: ReachConds with the path kept (which blocks each way passes).
func ReachCondPaths(fn *ssa.Function, b *ssa.BasicBlock) (out []CondPath, ok bool) {
	paths, pok := PathsTo(fn, b, 4096)
	if !pok {
		return nil, false
	}
	for _, p := range paths {
		if cs, feasible := pathConds(p); feasible {
			out = append(out, CondPath{Path: p, Conds: cs})
		}
	}
	return out, true
}

func pathConds(p Path) (cs []Cond, feasible bool) {
	if !Feasible(p) {
		return nil, false
	}
	for _, c := range p.Conds() {
		upto := p
		if c.Idx+1 <= len(p) {
			upto = p[:c.Idx+1]
		}
		ex, feas := valueConds(c.V, upto, c.True, 0)
		if !feas {
			return nil, false
		}
		for _, e := range ex {
			cs = append(cs, NormCond(e))
		}
	}
	return cs, true
}

// ResultPaths: the feasible paths of fn on which bool result #idx may equal
// want, each with its conditions.
func ResultPaths(fn *ssa.Function, idx int, want bool) (out []CondPath, ok bool) {
	ok = true
	for _, rb := range ReturnBlocks(fn) {
		ret := LastInstr(rb).(*ssa.Return)
		rvs := ReturnValues(ret)
		if idx >= len(rvs) {
			return nil, false
		}
		paths, pok := PathsTo(fn, rb, 4096)
		if !pok {
			return nil, false
		}
		for _, p := range paths {
			if !Feasible(p) {
				continue
			}
			extra, feas := valueConds(resolveRetVal(rvs[idx], p), p, want, 0)
			if !feas {
				continue
			}
			cp := CondPath{Path: p}
			for _, c := range p.Conds() {
				cp.Conds = append(cp.Conds, NormCond(c))
			}
			for _, c := range extra {
				cp.Conds = append(cp.Conds, NormCond(c))
				cp.Extra = append(cp.Extra, NormCond(c))
			}
			// a value forced both ways on one path: infeasible
			seen := map[ssa.Value]bool{}
			contra := false
			for _, c := range cp.Conds {
				if c.At != nil && len(Latches(c.At)) > 0 {
					continue // the header test of a loop passed twice
				}
				if v, has := seen[c.V]; has && v != c.True {
					contra = true
				}
				seen[c.V] = c.True
			}
			if contra {
				continue
			}
			out = append(out, cp)
		}
	}
	return out, ok
}

// Has reports whether the path carries a condition satisfying f.
func (cp CondPath) Has(f func(Cond) bool) bool {
	for _, c := range cp.Conds {
		if f(c) {
			return true
		}
	}
	return false
}

// AllHave: every path carries a condition satisfying f (false for no paths).
func AllHave(paths []CondPath, f func(Cond) bool) bool {
	if len(paths) == 0 {
		return false
	}
	for _, p := range paths {
		if !p.Has(f) {
			return false
		}
	}
	return true
}

// ResultPathsDeep: like ResultPaths, but where a path tests the verdict of a
// private helper with one bool result (`if !stat.markSeen(id, msg) { return
// false }` — pure or not), the helper's own paths to that verdict are spliced
// in: one CondPath per combination, whose Conds carry the helper's conditions
// (with their call chain, see Cond.Path) and whose Sub lists the helper paths.
func ResultPathsDeep(fn *ssa.Function, idx int, want bool) ([]CondPath, bool) {
	return resultPathsDeep(fn, idx, want, nil, 0)
}

// ResultPathsDeepVia: ResultPathsDeep of a helper called at the given site, its conditions
// readable in the caller's terms (Cond.Path).
func ResultPathsDeepVia(h *ssa.Function, idx int, want bool, site *ssa.Call) ([]CondPath, bool) {
	return resultPathsDeep(h, idx, want, []*ssa.Call{site}, 0)
}

func resultPathsDeep(fn *ssa.Function, idx int, want bool, chain []*ssa.Call, depth int) ([]CondPath, bool) {
	base, ok := ResultPaths(fn, idx, want)
	if !ok {
		return nil, false
	}
	for i := range base {
		for j := range base[i].Conds {
			base[i].Conds[j].Chain = chain
		}
	}
	if depth >= 2 {
		return base, true
	}
	var out []CondPath
	for _, cp := range base {
		cur := []CondPath{cp}
		for _, cd := range cp.Conds {
			call, isCall := cd.V.(*ssa.Call)
			if !isCall {
				continue
			}
			h := StaticCallee(&call.Call)
			if !PrivateHelper(h) || h.Signature.Results().Len() != 1 || h == fn {
				continue
			}
			sub, okh := resultPathsDeep(h, 0, cd.True, append(append([]*ssa.Call(nil), chain...), call), depth+1)
			if !okh || len(sub) == 0 || len(sub)*len(cur) > 512 {
				continue
			}
			var next []CondPath
			for _, c0 := range cur {
				for _, sp := range sub {
					n := c0
					n.Conds = append(append([]Cond(nil), c0.Conds...), sp.Conds...)
					n.Sub = append(append([]CondPath(nil), c0.Sub...), sp)
					next = append(next, n)
				}
			}
			cur = next
		}
		out = append(out, cur...)
	}
	return out, true
}

// ---------------------------------------------------------------- verdicts of helpers

// ReachCondsDeep: ReachConds, and where a path tests what a private helper
// answered, the helper's own conditions for that answer are spliced in (with
// their call chain, so that Cond.Path reads them in fn's terms). Three kinds
// of answer are understood:
//
//	if helper(x) {…}                       a bool
//	switch route := helper(x); route {…}   a constant of an enum-like type
//	out := helper(x); if out.f != nil {…}  a struct whose field is set or left zero
//	in := newT(x); if in.state != k {…}    a field of the object a private constructor built, assigned
//	                                       nowhere else: what the constructor's path last stored there
//	                                       (also when the test sits in a method of the object)
//
// All tests of one call's answer on a path are taken together: the helper
// return blocks consistent with every one of them are the alternatives.
func ReachCondsDeep(fn *ssa.Function, b *ssa.BasicBlock) ([][]Cond, bool) {
	base, ok := ReachConds(fn, b)
	if !ok {
		return nil, false
	}
	return spliceVerdicts(base, nil, 0), true
}

// verdictTest: one test of a helper call's answer.
type verdictTest struct {
	kind string // "bool" | "const" | "field" | "result" | "objfield"
	// objfield: the chain of call sites down to the function the constructor call stands in
	prefix []*ssa.Call
	pol    bool // bool: wanted value; const: wanted equality; field: wanted "is nil"
	k      *ssa.Const
	field  int
}

func verdictOf(c Cond) (*ssa.Call, verdictTest, bool) {
	c = NormCond(c)
	if call, ok := Unwrap(c.V).(*ssa.Call); ok {
		if h := StaticCallee(&call.Call); PrivateHelper(h) && h.Signature.Results().Len() == 1 {
			return call, verdictTest{kind: "bool", pol: c.True}, true
		}
		return nil, verdictTest{}, false
	}
	bin, ok := c.V.(*ssa.BinOp)
	if !ok || (bin.Op != token.EQL && bin.Op != token.NEQ) {
		return nil, verdictTest{}, false
	}
	x, y := unconvVal(bin.X), unconvVal(bin.Y)
	if _, isK := x.(*ssa.Const); isK {
		x, y = y, x
	}
	k, isK := y.(*ssa.Const)
	if !isK {
		return nil, verdictTest{}, false
	}
	eq := (bin.Op == token.EQL) == c.True
	x = LoadedValue(x)
	if call, ok := x.(*ssa.Call); ok && !k.IsNil() {
		if h := StaticCallee(&call.Call); PrivateHelper(h) && h.Signature.Results().Len() == 1 {
			return call, verdictTest{kind: "const", pol: eq, k: k}, true
		}
	}
	if k.IsNil() {
		// field of a struct a helper returned: Field(call, i), or a load of &local.f with local = call;
		// or one result of a helper with several (`msg, rejection := screen(frame); if rejection != nil`)
		switch f := x.(type) {
		case *ssa.Extract:
			if call, ok := f.Tuple.(*ssa.Call); ok {
				if h := StaticCallee(&call.Call); PrivateHelper(h) && h.Signature.Results().Len() > 1 {
					return call, verdictTest{kind: "result", pol: eq, field: f.Index}, true
				}
			}
		case *ssa.Field:
			if call, ok := LoadedValue(f.X).(*ssa.Call); ok {
				if h := StaticCallee(&call.Call); PrivateHelper(h) && h.Signature.Results().Len() == 1 {
					return call, verdictTest{kind: "field", pol: eq, field: f.Field}, true
				}
			}
		case *ssa.UnOp:
			if fa, ok := f.X.(*ssa.FieldAddr); ok && f.Op == token.MUL {
				if a, ok := fa.X.(*ssa.Alloc); ok {
					if st := EffectiveStores(a); len(st) == 1 {
						if call, ok := st[0].Val.(*ssa.Call); ok {
							if h := StaticCallee(&call.Call); PrivateHelper(h) && h.Signature.Results().Len() == 1 {
								return call, verdictTest{kind: "field", pol: eq, field: fa.Field}, true
							}
						}
					}
				}
			}
		}
	}
	// a field of the object a private constructor returned, compared with a constant
	if u, ok := x.(*ssa.UnOp); ok && u.Op == token.MUL {
		if fa, ok := u.X.(*ssa.FieldAddr); ok && FieldWriteOnceHook(fa.X.Type(), fa.Field) {
			if call, prefix := constructorOf(fa.X, c.Chain); call != nil {
				return call, verdictTest{kind: "objfield", pol: eq, k: k, field: fa.Field, prefix: prefix}, true
			}
		}
	}
	return nil, verdictTest{}, false
}

// constructorOf: obj (a value of the innermost function of chain) is, followed outwards through
// parameters, the pointer a private constructor call returned; with the chain of the function that
// call stands in.
func constructorOf(obj ssa.Value, chain []*ssa.Call) (*ssa.Call, []*ssa.Call) {
	v := obj
	i := len(chain)
	for {
		v = LoadedValue(Unwrap(v))
		par, isPar := v.(*ssa.Parameter)
		if !isPar || i == 0 {
			break
		}
		g := StaticCallee(&chain[i-1].Call)
		if g == nil || par.Parent() != g {
			return nil, nil
		}
		found := false
		for j, gp := range g.Params {
			if gp == par && j < len(chain[i-1].Call.Args) {
				v, found = chain[i-1].Call.Args[j], true
			}
		}
		if !found {
			return nil, nil
		}
		i--
	}
	call, ok := v.(*ssa.Call)
	if !ok {
		return nil, nil
	}
	h := StaticCallee(&call.Call)
	if !PrivateHelper(h) || h.Signature.Results().Len() != 1 || len(h.Blocks) == 0 {
		return nil, nil
	}
	if _, isPtr := h.Signature.Results().At(0).Type().Underlying().(*types.Pointer); !isPtr {
		return nil, nil
	}
	// every return hands out the one allocation of the constructor
	var alloc *ssa.Alloc
	for _, rb := range ReturnBlocks(h) {
		a, isA := Unwrap(ReturnValues(LastInstr(rb).(*ssa.Return))[0]).(*ssa.Alloc)
		if !isA || (alloc != nil && a != alloc) {
			return nil, nil
		}
		alloc = a
	}
	if alloc == nil {
		return nil, nil
	}
	return call, append([]*ssa.Call(nil), chain[:i]...)
}

// lastFieldStore: the value field #field of the object at alloc holds at the end of path p (nil: never
// assigned on it); known=false: a store the path's order does not settle (inside a loop, through an alias).
func lastFieldStore(p Path, alloc *ssa.Alloc, field int) (val ssa.Value, known bool) {
	seen := map[*ssa.BasicBlock]bool{}
	for _, b := range p {
		if seen[b] {
			return nil, false
		}
		seen[b] = true
		for _, in := range b.Instrs {
			if st, ok := in.(*ssa.Store); ok {
				if fa, ok := st.Addr.(*ssa.FieldAddr); ok && fa.Field == field && fa.X == ssa.Value(alloc) {
					val = st.Val
				}
			}
		}
	}
	return val, true
}

// constAgrees: does val (nil: the zero value) equal the constant k; known=false: val is not a constant.
func constAgrees(val ssa.Value, k *ssa.Const) (eq, known bool) {
	zeroK := k.Value == nil || k.Value.ExactString() == "0" || k.Value.ExactString() == "false" || k.Value.ExactString() == `""`
	if val == nil {
		return zeroK, true
	}
	vk, ok := unconvVal(val).(*ssa.Const)
	if !ok {
		if k.Value == nil {
			switch nilness(val, 0) {
			case 1:
				return false, true
			case -1:
				return true, true
			}
		}
		return false, false
	}
	if vk.Value == nil || k.Value == nil {
		return (vk.Value == nil || vk.Value.ExactString() == "0") == zeroK && (vk.Value == nil) == (k.Value == nil), true
	}
	return vk.Value.ExactString() == k.Value.ExactString(), true
}

func unconvVal(v ssa.Value) ssa.Value {
	for {
		switch x := v.(type) {
		case *ssa.Convert:
			v = x.X
		case *ssa.ChangeType:
			v = x.X
		default:
			return v
		}
	}
}

// fieldNilness of result #0 of h at return block rb: +1 definitely non-nil,
// -1 nil / left zero, 0 unknown.
func fieldNilness(h *ssa.Function, rb *ssa.BasicBlock, field int, depth int) int {
	rv := LoadedValue(ReturnValues(LastInstr(rb).(*ssa.Return))[0])
	return valueFieldNilness(rv, field, depth)
}

func valueFieldNilness(rv ssa.Value, field int, depth int) int {
	if depth > 3 {
		return 0
	}
	switch x := rv.(type) {
	case *ssa.UnOp:
		if a, ok := x.X.(*ssa.Alloc); ok && x.Op == token.MUL {
			// composite literal: the field's store, if any
			var val ssa.Value
			n := 0
			if a.Referrers() != nil {
				for _, r := range *a.Referrers() {
					if fa, ok := r.(*ssa.FieldAddr); ok && fa.Field == field && fa.Referrers() != nil {
						for _, r2 := range *fa.Referrers() {
							if st, ok := r2.(*ssa.Store); ok && st.Addr == ssa.Value(fa) {
								val = st.Val
								n++
							}
						}
					}
				}
			}
			if n == 0 {
				return -1
			}
			if n > 1 {
				return 0
			}
			return nilness(val, depth)
		}
	case *ssa.Call:
		g := StaticCallee(&x.Call)
		if !PrivateHelper(g) || len(g.Params) != len(x.Call.Args) {
			return 0
		}
		res := 2
		for _, grb := range ReturnBlocks(g) {
			grv := LoadedValue(ReturnValues(LastInstr(grb).(*ssa.Return))[0])
			n := 0
			// the field may be one of g's parameters: then the argument decides
			if u, ok := grv.(*ssa.UnOp); ok && u.Op == token.MUL {
				if a, ok := u.X.(*ssa.Alloc); ok && a.Referrers() != nil {
					found := false
					for _, r := range *a.Referrers() {
						if fa, ok := r.(*ssa.FieldAddr); ok && fa.Field == field && fa.Referrers() != nil {
							for _, r2 := range *fa.Referrers() {
								if st, ok := r2.(*ssa.Store); ok && st.Addr == ssa.Value(fa) {
									found = true
									if p, isPar := st.Val.(*ssa.Parameter); isPar {
										for i, gp := range g.Params {
											if gp == p {
												n = nilness(x.Call.Args[i], depth+1)
											}
										}
									} else {
										n = nilness(st.Val, depth+1)
									}
								}
							}
						}
					}
					if !found {
						n = -1
					}
				}
			}
			if res == 2 {
				res = n
			} else if res != n {
				res = 0
			}
		}
		if res == 2 {
			return 0
		}
		return res
	}
	return 0
}

// Nilness: +1 the value is definitely not nil (a fresh allocation, fmt.Errorf / errors.New, a
// constructor all of whose returns are), -1 definitely nil, 0 unknown.
func Nilness(v ssa.Value) int { return nilness(v, 0) }

func nilness(v ssa.Value, depth int) int {
	v = LoadedValue(Unwrap(v))
	if IsNilConst(v) {
		return -1
	}
	switch x := v.(type) {
	case *ssa.Alloc, *ssa.MakeMap, *ssa.MakeSlice, *ssa.MakeChan, *ssa.MakeClosure, *ssa.Function:
		return 1
	case *ssa.Call:
		// library constructors of errors never return nil
		switch CalleeName(&x.Call) {
		case "fmt.Errorf", "errors.New":
			return 1
		}
		// a constructor: every return hands out a fresh allocation
		g := StaticCallee(&x.Call)
		if g == nil || len(g.Blocks) == 0 || depth > 3 {
			return 0
		}
		for _, rb := range ReturnBlocks(g) {
			rvs := ReturnValues(LastInstr(rb).(*ssa.Return))
			if len(rvs) == 0 || nilness(rvs[0], depth+1) != 1 {
				return 0
			}
		}
		return 1
	}
	return 0
}

func spliceVerdicts(paths [][]Cond, chain []*ssa.Call, depth int) [][]Cond {
	if depth >= 2 {
		return paths
	}
	var out [][]Cond
	for _, cs := range paths {
		// the tests of each helper call on this path
		tests := map[*ssa.Call][]verdictTest{}
		var order []*ssa.Call
		for _, c := range cs {
			if call, t, ok := verdictOf(c); ok {
				if _, seen := tests[call]; !seen {
					order = append(order, call)
				}
				tests[call] = append(tests[call], t)
			}
		}
		cur := [][]Cond{cs}
		for _, call := range order {
			h := StaticCallee(&call.Call)
			var alts [][]Cond
			known := true
			nchain := append(append([]*ssa.Call(nil), chain...), call)
			tag := func(scs []Cond) []Cond {
				tagged := make([]Cond, len(scs))
				for i, c := range scs {
					if c.Chain == nil {
						c.Chain = nchain
					}
					tagged[i] = c
				}
				return tagged
			}
			if tests[call][0].kind == "objfield" {
				nchain = append(append([]*ssa.Call(nil), tests[call][0].prefix...), call)
				for _, rb := range ReturnBlocks(h) {
					alloc, _ := Unwrap(ReturnValues(LastInstr(rb).(*ssa.Return))[0]).(*ssa.Alloc)
					ps, pok := PathsTo(h, rb, 4096)
					if alloc == nil || !pok {
						known = false
						break
					}
					for _, p := range ps {
						pcs, feas := pathConds(p)
						if !feas {
							continue
						}
						consistent := true
						for _, t := range tests[call] {
							if t.kind != "objfield" {
								known = false
								continue
							}
							val, ok := lastFieldStore(p, alloc, t.field)
							if !ok {
								known = false
								continue
							}
							if eq, k := constAgrees(val, t.k); k && eq != t.pol {
								consistent = false
							}
						}
						if consistent {
							alts = append(alts, tag(pcs))
						}
					}
				}
			} else if tests[call][0].kind == "bool" {
				rps, ok := ResultPaths(h, 0, tests[call][0].pol)
				if !ok {
					continue
				}
				for _, rp := range rps {
					alts = append(alts, tag(rp.Conds))
				}
			} else {
				for _, rb := range ReturnBlocks(h) {
					rv := LoadedValue(ReturnValues(LastInstr(rb).(*ssa.Return))[0])
					consistent := true
					for _, t := range tests[call] {
						switch t.kind {
						case "const":
							k, isK := unconvVal(rv).(*ssa.Const)
							if !isK || k.Value == nil || t.k.Value == nil {
								known = false
								continue
							}
							if (k.Value.ExactString() == t.k.Value.ExactString()) != t.pol {
								consistent = false
							}
						case "field":
							n := fieldNilness(h, rb, t.field, 0)
							if (n == 1 && t.pol) || (n == -1 && !t.pol) {
								consistent = false
							}
						case "result":
							rvs := ReturnValues(LastInstr(rb).(*ssa.Return))
							if t.field >= len(rvs) {
								known = false
								continue
							}
							n := nilness(rvs[t.field], 0)
							if (n == 1 && t.pol) || (n == -1 && !t.pol) {
								consistent = false
							}
						}
					}
					if !consistent {
						continue
					}
					sub, ok := ReachConds(h, rb)
					if !ok {
						known = false
						continue
					}
					for _, scs := range sub {
						alts = append(alts, tag(scs))
					}
				}
			}
			if !known || len(alts) == 0 || len(alts)*len(cur) > 2048 {
				continue
			}
			alts = spliceVerdicts(alts, nchain, depth+1)
			var next [][]Cond
			for _, c0 := range cur {
				for _, a := range alts {
					next = append(next, append(append([]Cond(nil), c0...), a...))
				}
			}
			cur = next
		}
		out = append(out, cur...)
	}
	return out
}

// SpliceVerdicts: the deep alternatives of one path's conditions (see
// ReachCondsDeep).
func SpliceVerdicts(conds []Cond) [][]Cond {
	return spliceVerdicts([][]Cond{conds}, nil, 0)
}

// FieldOfHelperResult: v reads field #i of the struct a private helper call
// returned (`out := decide(x); … out.msg …`). ok=false: v is something else.
func FieldOfHelperResult(v ssa.Value) (call *ssa.Call, field int, ok bool) {
	v = LoadedValue(Unwrap(v))
	switch f := v.(type) {
	case *ssa.Extract:
		// result #i of a helper with several results
		if c, isCall := f.Tuple.(*ssa.Call); isCall {
			if h := StaticCallee(&c.Call); PrivateHelper(h) && h.Signature.Results().Len() > 1 {
				return c, f.Index, true
			}
		}
	case *ssa.Field:
		if c, isCall := LoadedValue(f.X).(*ssa.Call); isCall {
			if h := StaticCallee(&c.Call); PrivateHelper(h) && h.Signature.Results().Len() == 1 {
				return c, f.Field, true
			}
		}
	case *ssa.UnOp:
		if fa, isFA := f.X.(*ssa.FieldAddr); isFA && f.Op == token.MUL {
			if a, isA := fa.X.(*ssa.Alloc); isA {
				if st := EffectiveStores(a); len(st) == 1 {
					if c, isCall := st[0].Val.(*ssa.Call); isCall {
						if h := StaticCallee(&c.Call); PrivateHelper(h) && h.Signature.Results().Len() == 1 {
							return c, fa.Field, true
						}
					}
				}
			}
		}
	}
	return nil, 0, false
}

// ResultFieldPaths: the access paths (in the caller's terms) of what field
// #field of the helper's struct result holds, one per return of the helper
// that sets it; returns that leave it zero are skipped. ok=false: a return
// whose struct could not be read.
func ResultFieldPaths(call *ssa.Call, field int) (paths []string, ok bool) {
	h := StaticCallee(&call.Call)
	if h == nil {
		return nil, false
	}
	return resultFieldPaths(h, []*ssa.Call{call}, field, 0)
}

// ResultFieldPathsStrict: like ResultFieldPaths, but a return of the helper that leaves the
// field at its zero value makes the reading fail (ok=false): every way out sets the field.
func ResultFieldPathsStrict(call *ssa.Call, field int) (paths []string, ok bool) {
	h := StaticCallee(&call.Call)
	if h == nil {
		return nil, false
	}
	strictFieldPaths = true
	defer func() { strictFieldPaths = false }()
	return resultFieldPaths(h, []*ssa.Call{call}, field, 0)
}

var strictFieldPaths bool

func resultFieldPaths(h *ssa.Function, chain []*ssa.Call, field int, depth int) ([]string, bool) {
	var out []string
	if h.Signature.Results().Len() > 1 {
		// several results: "field" is the result's index
		for _, rb := range ReturnBlocks(h) {
			rvs := ReturnValues(LastInstr(rb).(*ssa.Return))
			if field >= len(rvs) {
				return nil, false
			}
			if rv := rvs[field]; !IsNilConst(Unwrap(rv)) {
				out = append(out, PathOfChain(rv, chain))
			}
		}
		return out, true
	}
	for _, rb := range ReturnBlocks(h) {
		rv := LoadedValue(ReturnValues(LastInstr(rb).(*ssa.Return))[0])
		switch x := rv.(type) {
		case *ssa.UnOp:
			a, isA := x.X.(*ssa.Alloc)
			if !isA || x.Op != token.MUL || a.Referrers() == nil {
				return nil, false
			}
			before := len(out)
			for _, r := range *a.Referrers() {
				if fa, isFA := r.(*ssa.FieldAddr); isFA && fa.Field == field && fa.Referrers() != nil {
					for _, r2 := range *fa.Referrers() {
						if st, isSt := r2.(*ssa.Store); isSt && st.Addr == ssa.Value(fa) && !IsNilConst(st.Val) {
							out = append(out, PathOfChain(st.Val, chain))
						}
					}
				}
			}
			if strictFieldPaths && len(out) == before {
				return nil, false // this return leaves the field zero
			}
		case *ssa.Call:
			g := StaticCallee(&x.Call)
			if !PrivateHelper(g) || depth > 2 {
				return nil, false
			}
			sub, ok := resultFieldPaths(g, append(append([]*ssa.Call(nil), chain...), x), field, depth+1)
			if !ok {
				return nil, false
			}
			out = append(out, sub...)
		default:
			return nil, false
		}
	}
	return out, true
}
