package rules

import (
	"fmt"
	"go/token"
	"go/types"
	"sort"
	"strings"

	"golang.org/x/tools/go/ssa"

	"mocverif/internal/an"
	"mocverif/internal/core"
)

func init() {
	reg(&core.RuleInfo{Name: "REPLY-TAB", Props: []string{"C16"}, Engine: "CFG", Floor: 12, Confirmed: 17,
		Doc: "per message type each storage base answers with the statement's reply shape", Run: runReplyTab})
	reg(&core.RuleInfo{Name: "LOOP-ORDER", Props: []string{"C16"}, Engine: "CFG", Floor: 1, Confirmed: 1,
		Doc: "replies of request n are drained before request n+1 is received", Run: runLoopOrder})
	reg(&core.RuleInfo{Name: "DUMP-ALL", Props: []string{"C16"}, Engine: "PROV", Floor: 2, Confirmed: 2,
		Doc: "Dump lists with an empty filter; Restore inserts only through Add", Run: runDumpAll})
}

func ctorShort(v ssa.Value) string {
	call := an.CallOf(v)
	if call == nil {
		call = an.CallOf(an.LoadedValue(an.Unwrap(v)))
	}
	if call == nil {
		if ph, ok := an.Unwrap(v).(*ssa.Phi); ok {
			set := map[string]bool{}
			for _, e := range ph.Edges {
				set[ctorShort(e)] = true
			}
			var ks []string
			for k := range set {
				ks = append(ks, k)
			}
			sort.Strings(ks)
			return strings.Join(ks, "|")
		}
		return "?" + an.PathOf(v)
	}
	name := an.CalleeName(&call.Call)
	short := name[strings.LastIndex(name, ".")+1:]
	switch short {
	case "NewServerOKMsg":
		return "OK"
	case "NewServerEOSEMsg":
		return "EOSE"
	case "NewServerEventMsg":
		return "Event"
	case "NewServerCountMsg":
		return "COUNT"
	case "NewServerClosedMsg", "NewServerClosedMsgf":
		return "CLOSED"
	case "NewServerNoticeMsg", "NewServerNoticeMsgf":
		return "NOTICE"
	}
	// a private helper wrapping a constructor (newZeroCount(id) = NewServerCountMsg(id, 0, nil))
	if g := an.StaticCallee(&call.Call); an.PrivateHelper(g) && g.Signature.Results().Len() == 1 {
		set := map[string]bool{}
		for _, rb := range an.ReturnBlocks(g) {
			rv := an.ReturnValues(an.LastInstr(rb).(*ssa.Return))[0]
			if inner := an.CallOf(an.LoadedValue(an.Unwrap(rv))); inner != nil && an.StaticCallee(&inner.Call) == g {
				continue // recursion
			}
			set[ctorShort(rv)] = true
		}
		if len(set) > 0 {
			var ks []string
			for k := range set {
				ks = append(ks, k)
			}
			sort.Strings(ks)
			return strings.Join(ks, "|")
		}
	}
	return "?" + short
}

// replyShape: what a returned reply channel carries, e.g. "Event*,EOSE".
func replyShape(fn *ssa.Function, v ssa.Value) (string, bool) {
	v = an.Unwrap(v)
	if an.IsNilConst(v) {
		return "nil", true
	}
	elems, ok := chanLiteral(fn, v, 0)
	if !ok {
		return "", false
	}
	var s []string
	for _, e := range elems {
		t := ctorShort(e.val)
		if e.inLoop {
			t += "*"
		}
		s = append(s, t)
	}
	return strings.Join(s, ","), true
}

type replyTable map[string]map[string]bool // msgType → shapes

var clientTypes = []string{"ClientEventMsg", "ClientReqMsg", "ClientCloseMsg", "ClientAuthMsg", "ClientCountMsg"}

// buildReplyTable computes the table of a (<-chan ServerMsg, error) base function.
func buildReplyTable(P *core.Program, fn *ssa.Function, msgParam int, depth int) (replyTable, []string) {
	tab := replyTable{}
	var problems []string
	add := func(t, shape string) {
		if tab[t] == nil {
			tab[t] = map[string]bool{}
		}
		tab[t][shape] = true
	}
	msgPath := "p:" + fn.Params[msgParam].Name()
	declared := typeNameOf(fn.Params[msgParam].Type())
	handled := map[string]bool{}
	type deflt struct{ shapes replyTable }
	var defaults []replyTable
	var defaultShapes []string
	for _, rb := range an.ReturnBlocks(fn) {
		r := an.LastInstr(rb).(*ssa.Return)
		res := an.ReturnValues(r)
		mt := assertedType(fn, rb, msgPath)
		if mt == "" && declared != "ClientMsg" {
			mt = declared
		}
		// a single return of a result variable assigned per clause: one row per phi edge
		if mt == "" && an.IsNilConst(res[1]) {
			if elems, okc := chanLiteral(fn, res[0], 0); okc && len(elems) == 1 {
				if ph, isPhi := an.Unwrap(elems[0].val).(*ssa.Phi); isPhi {
					for i, e := range ph.Edges {
						et := assertedType(fn, ph.Block().Preds[i], msgPath)
						if et == "" {
							defaultShapes = append(defaultShapes, ctorShort(e))
							continue
						}
						handled[et] = true
						add(et, ctorShort(e))
					}
					continue
				}
			}
		}
		// … or the reply channel itself is the result variable: one channel per clause (the
		// clauses that assign nothing leave it nil)
		if mt == "" && an.IsNilConst(res[1]) {
			if ph, isPhi := an.Unwrap(res[0]).(*ssa.Phi); isPhi {
				allOK := true
				type row struct{ t, shape string }
				var rows []row
				for i, e := range ph.Edges {
					s, ok := replyShape(fn, e)
					if !ok {
						allOK = false
						break
					}
					rows = append(rows, row{assertedType(fn, ph.Block().Preds[i], msgPath), s})
				}
				if allOK {
					for _, rw := range rows {
						if rw.t == "" {
							defaultShapes = append(defaultShapes, rw.shape)
							continue
						}
						handled[rw.t] = true
						add(rw.t, rw.shape)
					}
					continue
				}
			}
		}
		var sub replyTable
		shape := ""
		// delegation
		if ex, ok := res[0].(*ssa.Extract); ok && depth < 3 {
			if call, ok := ex.Tuple.(*ssa.Call); ok {
				if sc := an.StaticCallee(&call.Call); sc != nil && P.InModule(sc) && sc.Signature.Results().Len() == 2 {
					for i, a := range call.Call.Args {
						if an.PathOf(a) == msgPath {
							var ps []string
							sub, ps = buildReplyTable(P, sc, i, depth+1)
							problems = append(problems, ps...)
						}
					}
				}
			}
		}
		if sub == nil {
			if !an.IsNilConst(res[1]) {
				// an EVENT message without an event is refused with an error: no event, no reply owed
				noEvent := false
				for _, g := range an.Guards(fn, r.Block()) {
					if nilEventCond(g) {
						noEvent = true
					}
				}
				if noEvent {
					continue
				}
				shape = "err"
			} else if s, ok := replyShape(fn, res[0]); ok {
				shape = s
			} else {
				problems = append(problems, "return at "+P.Pos(r.Pos())+": reply channel idiom not recognised ("+an.PathOf(res[0])+")")
				continue
			}
		}
		if mt != "" {
			handled[mt] = true
			if sub != nil {
				for _, s := range keysOf(sub[mt]) {
					add(mt, s)
				}
			} else {
				add(mt, shape)
			}
			continue
		}
		if sub != nil {
			defaults = append(defaults, sub)
		} else {
			defaultShapes = append(defaultShapes, shape)
		}
	}
	for _, t := range clientTypes {
		if handled[t] {
			continue
		}
		for _, d := range defaults {
			for _, s := range keysOf(d[t]) {
				add(t, s)
			}
		}
		for _, s := range defaultShapes {
			add(t, s)
		}
	}
	return tab, problems
}

func keysOf(m map[string]bool) []string {
	var ks []string
	for k := range m {
		ks = append(ks, k)
	}
	sort.Strings(ks)
	return ks
}

func runReplyTab(c *core.Ctx) {
	P := c.P
	type baseSpec struct {
		name string
		fn   *ssa.Function
		want map[string][]string
	}
	storage := map[string][]string{
		"ClientEventMsg": {"OK"},
		"ClientReqMsg":   {"Event*,EOSE"},
		"ClientCountMsg": {"COUNT"},
		"ClientCloseMsg": {"nil"},
		"ClientAuthMsg":  {"nil"},
	}
	sqliteWant := map[string][]string{
		"ClientEventMsg": {"OK", "?err"},           // err: the session context ended while queueing
		"ClientReqMsg":   {"?EOSE", "Event*,EOSE"}, // a bare EOSE (query failed) is a special case of Event*,EOSE
		"ClientCountMsg": {"COUNT"},
		"ClientCloseMsg": {"nil"},
		"ClientAuthMsg":  {"nil"},
	}
	defaultWant := map[string][]string{
		"ClientEventMsg": {"OK"},
		"ClientReqMsg":   {"CLOSED"},
		"ClientCountMsg": {"COUNT"},
		"ClientCloseMsg": {"nil"},
		"ClientAuthMsg":  {"nil"},
	}
	specs := []baseSpec{
		{"cache", P.Method(P.Root, "simpleCacheHandler", "ServeNostrClientMsg"), storage},
		{"sqlite", P.Method(P.Sqlite, "simpleSQLiteHandler", "ServeNostrClientMsg"), sqliteWant},
		{"default", P.Method(P.Root, "DefaultSimpleHandlerBase", "ServeNostrClientMsg"), defaultWant},
	}
	for _, sp := range specs {
		if sp.fn == nil {
			c.NoAnchor(nil, sp.name+" base ServeNostrClientMsg")
			continue
		}
		c.CountFuncs(1)
		tab, problems := buildReplyTable(P, sp.fn, 2, 0)
		for _, p := range problems {
			c.Unknown(nil, fname(c, sp.fn), "reply-idiom", P.Pos(sp.fn.Pos()), p)
		}
		for _, t := range clientTypes {
			got := keysOf(tab[t])
			// "?shape": allowed but not required
			var want []string
			allowed, missing := map[string]bool{}, 0
			for _, w := range sp.want[t] {
				opt := strings.HasPrefix(w, "?")
				w = strings.TrimPrefix(w, "?")
				allowed[w] = true
				want = append(want, w)
				if !opt && !tab[t][w] {
					missing++
				}
			}
			sort.Strings(want)
			extra := 0
			for _, g := range got {
				if !allowed[g] {
					extra++
				}
			}
			c.CountSites(1)
			c.Check(missing == 0 && extra == 0 && len(got) > 0, nil, fname(c, sp.fn), "clause["+t+"]", P.Pos(sp.fn.Pos()),
				t+" → "+strings.Join(got, " | "), fmt.Sprintf("%s is answered with {%s}, want {%s}", t, strings.Join(got, " | "), strings.Join(want, " | ")))
		}
	}
	// cache: Accepted follows Add's verdict; refusal carries the duplicate prefix
	cache := specs[0].fn
	if cache != nil {
		// (in the clause, or in a private helper the clause hands the event to)
		var addCall *ssa.Call
		var addOcc an.Occ
		an.Region(cache, nil, func(o an.Occ) {
			if call, ok := o.In.(*ssa.Call); ok && strings.HasSuffix(an.CalleeName(&call.Call), "EventCache).Add") {
				addCall, addOcc = call, o
			}
		})
		okT, okF := false, false
		msgPath := "p:" + cache.Params[2].Name()
		if addCall != nil && addOcc.Path(addCall.Call.Args[1]) == msgPath+".Event" {
			host := addCall.Parent()
			for _, call := range callsNamed(host, core.ModulePath+".NewServerOKMsg") {
				for _, g := range an.Guards(host, call.Block()) {
					if g.V != ssa.Value(addCall) {
						continue
					}
					if g.True && isConstBool(call.Call.Args[1], true) {
						okT = true
					}
					if !g.True && isConstBool(call.Call.Args[1], false) {
						if s, ok := an.ConstStr(call.Call.Args[2]); ok && s == "duplicate: " {
							okF = true
						}
					}
				}
			}
		}
		c.Check(okT && okF, nil, fname(c, cache), "clause[ClientEventMsg]/verdict", P.Pos(cache.Pos()),
			"OK is accepting on the true edge of Add(msg.Event) and rejecting with the duplicate: prefix on the false edge",
			fmt.Sprintf("cache OK verdict does not follow Add(msg.Event) (accepting on true: %v; rejecting with duplicate: prefix on false: %v)", okT, okF))
	}
	// sqlite: accepting OK
	if sq := specs[1].fn; sq != nil {
		okAcc := false
		for _, f := range an.RefClosure([]*ssa.Function{sq}, P.InModule) {
			if c.P.PkgOf(f) != c.P.PkgOf(sq) {
				continue
			}
			for _, call := range callsNamed(f, core.ModulePath+".NewServerOKMsg") {
				okAcc = isConstBool(call.Call.Args[1], true)
			}
		}
		c.Check(okAcc, nil, fname(c, sq), "clause[ClientEventMsg]/verdict", P.Pos(sq.Pos()), "the SQLite handler's OK is accepting", "the SQLite handler's OK is not accepting")
	}
}

func runLoopOrder(c *core.Ctx) {
	P := c.P
	serve := P.Method(P.Root, "SimpleHandler", "ServeNostr")
	if serve == nil {
		c.NoAnchor(nil, "SimpleHandler.ServeNostr")
		return
	}
	c.CountFuncs(1)
	var outer, inner *ssa.Select
	var innerOcc an.Occ
	an.Region(serve, nil, func(o an.Occ) {
		sel, ok := o.In.(*ssa.Select)
		if !ok {
			return
		}
		for _, st := range sel.States {
			if isClientMsgChan(st.Chan.Type()) && len(o.Chain) == 0 {
				outer = sel
			} else if strings.Contains(o.Path(st.Chan), "ServeNostrClientMsg") {
				inner, innerOcc = sel, o
			}
		}
	})
	if outer == nil || inner == nil {
		c.Unknown(nil, fname(c, serve), "drain-before-next", P.Pos(serve.Pos()), "request loop / reply-drain loop not recognised")
		return
	}
	drain := inner.Parent()
	// the edge taken when the reply channel is closed
	var cut []an.Edge
	an.Instrs(drain, func(in ssa.Instruction) {
		if iff, ok := in.(*ssa.If); ok {
			cd := an.NormCond(an.Cond{V: iff.Cond, True: true})
			if e, ok := cd.V.(*ssa.Extract); ok && e.Tuple == ssa.Value(inner) && e.Index == 1 {
				closedSucc := 1
				if !cd.True {
					closedSucc = 0
				}
				cut = append(cut, an.Edge{From: iff.Block(), To: iff.Block().Succs[closedSucc]})
			}
		}
	})
	good := false
	if drain == serve {
		// the only way from the drain select back to the request select is the closed edge of the drain receive
		// (decided per path under the assumption "the receive did not report closed": a
		// loop flag fed by that verdict is followed through its phi)
		var okVal ssa.Value
		an.Instrs(drain, func(in ssa.Instruction) {
			if e, isEx := in.(*ssa.Extract); isEx && e.Tuple == ssa.Value(inner) && e.Index == 1 {
				okVal = e
			}
		})
		back, okp := an.SimplePaths(inner.Block(), func(b *ssa.BasicBlock) bool { return b == outer.Block() }, 512)
		good = okVal != nil && okp && len(back) > 0
		if good {
			fr := an.NoSubject()
			fr.Assume = map[ssa.Value]bool{okVal: true}
			// the drain select stands inside the drain loop: the loop's own condition held when this
			// iteration began (`for drained := false; !drained; {…}`)
			fr.AssumeEntry = map[ssa.Value]bool{}
			for _, g := range an.Guards(drain, inner.Block()) {
				if _, isPhi := g.V.(*ssa.Phi); isPhi {
					fr.AssumeEntry[g.V] = g.True
				}
			}
			for _, p := range back {
				feasible := true
				for _, cd := range p.Conds() {
					t, f, known := fr.EvalBool(cd.V, p[:cd.Idx+1])
					if known && ((cd.True && !t) || (!cd.True && !f)) {
						feasible = false
					}
				}
				if feasible {
					good = false // back to the request select although the reply channel is still open
				}
			}
		}
	} else if len(innerOcc.Chain) == 1 && len(cut) == 1 {
		// the drain loop lives in a private helper: the helper comes back before the channel
		// is closed only with a verdict that makes the caller leave (session ended)
		site := innerOcc.Chain[0]
		good = true
		early := 0
		for _, rb := range an.ReturnBlocks(drain) {
			if !an.Reachable(inner.Block(), rb, cut, nil) {
				continue // reached only after the channel was closed
			}
			early++
			rv := an.ReturnValues(an.LastInstr(rb).(*ssa.Return))
			// assume that verdict at the call site: the request select must be out of reach
			fr := an.NoSubject()
			fr.Assume = map[ssa.Value]bool{}
			// the values the caller sees: the call itself (one result) or its extracts
			seen := func(i int) []ssa.Value {
				if len(rv) == 1 {
					return []ssa.Value{site}
				}
				var vs []ssa.Value
				if site.Referrers() != nil {
					for _, r := range *site.Referrers() {
						if ex, isEx := r.(*ssa.Extract); isEx && ex.Index == i {
							vs = append(vs, ex)
						}
					}
				}
				return vs
			}
			for i, v := range rv {
				for _, cv := range seen(i) {
					switch {
					case isConstBool(v, true):
						fr.Assume[cv] = true
					case isConstBool(v, false):
						fr.Assume[cv] = false
					case !an.IsNilConst(v):
						if _, isErr := v.Type().Underlying().(*types.Interface); isErr && cv.Referrers() != nil {
							for _, r := range *cv.Referrers() {
								if bin, isBin := r.(*ssa.BinOp); isBin && an.IsNilConst(bin.Y) {
									fr.Assume[bin] = bin.Op == token.NEQ
								}
							}
						}
					}
				}
			}
			if len(fr.Assume) == 0 {
				good = false
			}
			var pruned []an.Edge
			an.Instrs(serve, func(in ssa.Instruction) {
				iff, isIf := in.(*ssa.If)
				if !isIf {
					return
				}
				// conditions fixed by the assumed verdict (folding && / || through their blocks)
				t, f, known := fr.EvalBool(iff.Cond, an.Path{iff.Block()})
				if !known {
					return
				}
				if !t {
					pruned = append(pruned, an.Edge{From: iff.Block(), To: iff.Block().Succs[0]})
				}
				if !f {
					pruned = append(pruned, an.Edge{From: iff.Block(), To: iff.Block().Succs[1]})
				}
			})
			if an.Reachable(site.Block(), outer.Block(), pruned, nil) {
				good = false
			}
		}
		if !an.Reachable(site.Block(), outer.Block(), nil, nil) {
			good = false
		}
	}
	// and the drain forwards every reply it receives
	fwd := false
	an.Region(serve, nil, func(o an.Occ) {
		if call, ok := o.In.(*ssa.Call); ok && (strings.HasSuffix(an.CalleeName(&call.Call), "sendServerMsgCtx") || strings.HasSuffix(an.CalleeName(&call.Call), "mocrelay.sendCtx")) {
			if strings.HasPrefix(an.PathOf(call.Call.Args[2]), "select#") && o.Path(call.Call.Args[1]) == "p:"+serve.Params[2].Name() {
				fwd = true
			}
		}
	})
	c.Check(good && fwd, nil, fname(c, serve), "drain-before-next", P.Pos(innerOcc.Site().Pos()),
		"the next request is received only after the reply channel of the current one was closed (or the session ended); every drained reply is sent on",
		fmt.Sprintf("the request loop can receive the next message before the current reply channel is drained (closed-edge only: %v, replies forwarded: %v): replies of different requests can interleave or be lost", good, fwd))
}

func runDumpAll(c *core.Ctx) {
	P := c.P
	dump := P.Method(P.Root, "simpleCacheHandler", "Dump")
	restore := P.Method(P.Root, "simpleCacheHandler", "Restore")
	if dump == nil || restore == nil {
		c.NoAnchor(nil, "simpleCacheHandler.Dump / Restore")
		return
	}
	c.CountFuncs(2)
	// Dump: Find([]*ReqFilter{{}}) and the result is what gets marshalled and written
	good := false
	detail := "Dump does not query the cache"
	// (the query may sit in Dump or in a private helper it calls)
	an.Region(dump, nil, func(o an.Occ) {
		call, ok := o.In.(*ssa.Call)
		if !ok || !strings.HasSuffix(an.CalleeName(&call.Call), "EventCache).Find") {
			return
		}
		elems, ok := an.VariadicElems(call.Call.Args[1])
		if !ok || len(elems) != 1 {
			detail = "Dump queries with a filter list that is not a one-element literal"
			return
		}
		a, ok := elems[0].(*ssa.Alloc)
		if !ok || len(an.StructLitFields(a)) != 0 {
			detail = "Dump's filter sets a condition: " + an.PathOf(elems[0])
			return
		}
		// marshalled and written
		for _, m := range callsNamed(dump, "encoding/json.Marshal") {
			if mp := an.PathOf(m.Call.Args[0]); mp == o.Path(call) || (len(o.Chain) > 0 && an.Unwrap(m.Call.Args[0]) == ssa.Value(o.Chain[0]) && helperReturns(o.Chain[0], call)) {
				good = true
			}
		}
		if !good {
			detail = "the listing is not what Dump marshals"
		}
	})
	c.Check(good, nil, fname(c, dump), "filter", P.Pos(dump.Pos()), "Dump marshals Find([{}]): every retained event, newest first", detail)
	// Restore: only Add, for every decoded event
	var methods []string
	okAdd := false
	for _, ci := range calls(restore) {
		n := an.CalleeName(ci.Common())
		if strings.Contains(n, "EventCache).") {
			methods = append(methods, n[strings.LastIndex(n, ".")+1:])
			if call, ok := ci.(*ssa.Call); ok && strings.HasSuffix(n, ").Add") && an.InLoop(call.Block()) && strings.HasSuffix(an.PathOf(call.Call.Args[1]), "[*]") {
				okAdd = true
			}
		}
	}
	// … or through a bulk variant that is Add repeated: Restore (possibly through a method of the handler)
	// hands the decoded list to one exported method of the cache that, for every element of its slice
	// parameter, calls once what Add itself consists of
	if !okAdd {
		methods = nil
		nBulk := 0
		an.Region(restore, nil, func(o an.Occ) {
			call, ok := o.In.(*ssa.Call)
			if !ok {
				return
			}
			n := an.CalleeName(&call.Call)
			if !strings.Contains(n, "EventCache).") {
				return
			}
			methods = append(methods, n[strings.LastIndex(n, ".")+1:])
			if b := an.StaticCallee(&call.Call); b != nil && bulkOfAdd(P, b) {
				nBulk++
			}
		})
		okAdd = nBulk == 1 && len(methods) == 1
	}
	c.Check(okAdd && len(methods) == 1, nil, fname(c, restore), "insert-path", P.Pos(restore.Pos()), "Restore inserts every decoded event through EventCache.Add and nothing else", fmt.Sprintf("Restore touches the cache through %v, want exactly one looped Add of each decoded event", methods))
}

// helperReturns: every return of the helper called at site hands back the value of inner.
func helperReturns(site *ssa.Call, inner *ssa.Call) bool {
	h := an.StaticCallee(&site.Call)
	if h == nil || inner.Parent() != h {
		return false
	}
	for _, rb := range an.ReturnBlocks(h) {
		rv := an.ReturnValues(an.LastInstr(rb).(*ssa.Return))
		if len(rv) != 1 || an.Unwrap(rv[0]) != ssa.Value(inner) {
			return false
		}
	}
	return true
}

// bulkOfAdd: b is an exported method of EventCache with one slice-of-events parameter that is Add
// repeated: it ranges over the parameter and, on every iteration whose element is not nil, calls
// exactly once the function that Add hands its event to (`return c.insert(event)`), with that element;
// the loop is left only when the slice is exhausted.
func bulkOfAdd(P *core.Program, b *ssa.Function) bool {
	add := P.Method(P.Root, "EventCache", "Add")
	if add == nil || recvTypeName(b) != "EventCache" || len(b.Params) != 2 {
		return false
	}
	// what Add consists of: the one module call that receives its event
	var body *ssa.Function
	for _, ci := range calls(add) {
		call, ok := ci.(*ssa.Call)
		if !ok {
			continue
		}
		if g := an.StaticCallee(&call.Call); g != nil && P.InModule(g) && recvTypeName(g) == "EventCache" {
			for _, a := range call.Call.Args[1:] {
				if an.PathOf(a) == "p:"+add.Params[1].Name() {
					if body != nil && body != g {
						return false
					}
					body = g
				}
			}
		}
	}
	if body == nil {
		return false
	}
	var site *ssa.Call
	for _, call := range callsTo(b, body) {
		if site != nil {
			return false
		}
		site = call
	}
	if site == nil || !an.InLoop(site.Block()) || len(site.Call.Args) < 2 || an.PathOf(site.Call.Args[1]) != "p:"+b.Params[1].Name()+"[*]" {
		return false
	}
	h := an.LoopHeaderOf(site.Block())
	if h == nil {
		return false
	}
	loop := an.LoopBlocks(h)
	for blk := range loop {
		if _, isRet := an.LastInstr(blk).(*ssa.Return); isRet {
			return false
		}
	}
	// every way round the loop passes the call, or found the element nil
	paths, ok := an.IterPaths(h, func(x *ssa.BasicBlock) bool { return !loop[x] }, 256)
	if !ok {
		return false
	}
	for _, p := range paths {
		if len(p) < 2 || p[len(p)-1] != h || p.Contains(site.Block()) {
			continue
		}
		skipped := false
		for _, cd := range p.Conds() {
			cd = an.NormCond(cd)
			if bin, ok := cd.V.(*ssa.BinOp); ok && an.IsNilConst(bin.Y) && (bin.Op == token.EQL) == cd.True && strings.HasSuffix(an.PathOf(bin.X), "[*]") {
				skipped = true
			}
		}
		if !skipped {
			return false
		}
	}
	return true
}
