package rules

import (
	"fmt"
	"go/token"
	"go/types"
	"os"
	"strconv"
	"strings"

	"golang.org/x/tools/go/ssa"

	"mocverif/internal/an"
	"mocverif/internal/core"
)

// Relational bounds facts for hand-written scanners (DEC-BOUNDS, last resort before "not
// proven"): an index / slice expression is in range when
//
//	upper: a comparison of that very value with len of that very slice value dominates the
//	       access (`i < len(b)` taken, `i >= len(b)` not taken, …), and
//	lower: the value is non-negative by construction: a constant ≥ 0, len(…), a sum of such,
//	       a φ of such (induction over the loop: every cycle in SSA passes through a φ), a
//	       parameter of a private function all of whose call sites pass such a value, the
//	       result of a private function all of whose returns are such, or a value a
//	       dominating comparison bounds from below.
//
// Slice values are immutable in SSA, so len of the same SSA value is the same number at the
// test and at the access. Integer overflow of `i+1` is not modelled separately: every sum
// accepted here has a summand that a dominating test bounds by a length.
type boundsProver struct {
	c     *core.Ctx
	state map[nnKey]int8 // 1: assumed (in progress) or proven under the assumptions in progress, 2: not proven
	log   []nnKey
	depth int
}

type nnKey struct {
	kind string
	v, x ssa.Value
	blk  *ssa.BasicBlock
}

func newBoundsProver(c *core.Ctx) *boundsProver {
	return &boundsProver{c: c, state: map[nnKey]int8{}}
}

// memo runs f for the obligation key once. While f runs the obligation counts as holding
// (the induction hypothesis: every cycle of SSA values passes through a φ, so a cyclic
// dependency is the value of an earlier iteration). If f fails, everything concluded since
// it started may have leaned on that hypothesis and is forgotten.
func (bp *boundsProver) memo(key nnKey, f func() bool) bool {
	if st, ok := bp.state[key]; ok {
		return st == 1
	}
	if bp.depth > 60 {
		return false
	}
	bp.depth++
	defer func() { bp.depth-- }()
	bp.state[key] = 1
	mark := len(bp.log)
	bp.log = append(bp.log, key)
	if f() {
		return true
	}
	for _, k := range bp.log[mark:] {
		delete(bp.state, k)
	}
	bp.log = bp.log[:mark]
	bp.state[key] = 2
	return false
}

// sameInt: a and b are the same number: the same SSA value, equal constants, or the same
// arithmetic over the same numbers (go/ssa has no CSE: `i+1` written twice is two values).
func sameInt(a, b ssa.Value, depth int) bool {
	if a == b {
		return true
	}
	if depth > 4 {
		return false
	}
	if ka, ok := an.ConstInt(a); ok {
		if _, isConst := a.(*ssa.Const); isConst {
			kb, ok2 := an.ConstInt(b)
			_, isConstB := b.(*ssa.Const)
			return ok2 && isConstB && ka == kb
		}
	}
	x, ok1 := a.(*ssa.BinOp)
	y, ok2 := b.(*ssa.BinOp)
	if ok1 && ok2 && x.Op == y.Op && (x.Op == token.ADD || x.Op == token.SUB || x.Op == token.MUL) {
		return sameInt(x.X, y.X, depth+1) && sameInt(x.Y, y.Y, depth+1)
	}
	// len of the same slice / string value
	if la, ok := lenArg(a); ok {
		if lb, ok := lenArg(b); ok {
			return la == lb
		}
	}
	return false
}

// lenArg: v is len(x) for an SSA value x (not a memory cell read twice).
func lenArg(v ssa.Value) (ssa.Value, bool) {
	call, ok := v.(*ssa.Call)
	if !ok {
		return nil, false
	}
	b, ok := call.Call.Value.(*ssa.Builtin)
	if !ok || b.Name() != "len" || len(call.Call.Args) != 1 {
		return nil, false
	}
	return call.Call.Args[0], true
}

func isSignedInt(v ssa.Value) bool {
	bt, ok := v.Type().Underlying().(*types.Basic)
	return ok && bt.Info()&types.IsInteger != 0 && bt.Info()&types.IsUnsigned == 0
}

// cmpFacts calls f(lhs, op, rhs) for each comparison known to hold when blk is entered,
// with the operator as it holds (a comparison not taken is reported negated).
func cmpFacts(fn *ssa.Function, blk *ssa.BasicBlock, f func(x ssa.Value, op token.Token, y ssa.Value)) {
	neg := map[token.Token]token.Token{token.LSS: token.GEQ, token.GEQ: token.LSS, token.GTR: token.LEQ, token.LEQ: token.GTR, token.EQL: token.NEQ, token.NEQ: token.EQL}
	for _, g := range an.Guards(fn, blk) {
		b, ok := g.V.(*ssa.BinOp)
		if !ok {
			continue
		}
		op := b.Op
		if _, isCmp := neg[op]; !isCmp {
			continue
		}
		if !g.True {
			op = neg[op]
		}
		f(b.X, op, b.Y)
	}
}

// nonNegAt: v ≥ 0 whenever control is in blk (v is defined there).
func (bp *boundsProver) nonNegAt(v ssa.Value, blk *ssa.BasicBlock) bool {
	if !isSignedInt(v) {
		// unsigned values and untyped constants
		if k, ok := an.ConstInt(v); ok {
			return k >= 0
		}
		bt, ok := v.Type().Underlying().(*types.Basic)
		return ok && bt.Info()&types.IsUnsigned != 0
	}
	return bp.memo(nnKey{"nn", v, nil, blk}, func() bool { return bp.nonNeg1(v, blk) })
}

func (bp *boundsProver) nonNeg1(v ssa.Value, blk *ssa.BasicBlock) bool {
	// a dominating comparison bounds it from below
	if blk != nil {
		fn := blk.Parent()
		found := false
		cmpFacts(fn, blk, func(x ssa.Value, op token.Token, y ssa.Value) {
			if found {
				return
			}
			switch {
			case sameInt(x, v, 0) && (op == token.GEQ || op == token.GTR || op == token.EQL):
				// v >= y / v > y / v == y with y ≥ 0 (y ≥ -1 for >)
				if k, ok := an.ConstInt(y); ok && (k >= 0 || op == token.GTR && k >= -1) {
					found = true
				}
			case sameInt(y, v, 0) && (op == token.LEQ || op == token.LSS || op == token.EQL):
				if k, ok := an.ConstInt(x); ok && (k >= 0 || op == token.LSS && k >= -1) {
					found = true
				}
			}
		})
		if found {
			return true
		}
	}

	switch x := v.(type) {
	case *ssa.Const:
		k, ok := an.ConstInt(x)
		return ok && k >= 0
	case *ssa.Call:
		if _, ok := lenArg(x); ok {
			return true
		}
		if b, ok := x.Call.Value.(*ssa.Builtin); ok && (b.Name() == "cap" || b.Name() == "copy") {
			return true
		}
		if b, ok := x.Call.Value.(*ssa.Builtin); ok && (b.Name() == "min" || b.Name() == "max") {
			for _, a := range x.Call.Args {
				if !bp.nonNegAt(a, blk) {
					return false
				}
			}
			return true
		}
		g := an.StaticCallee(&x.Call)
		if g == nil || !an.PrivateHelper(g) || g.Signature.Results().Len() != 1 || len(g.Blocks) == 0 {
			return false
		}
		// the callee's parameters are judged at its own call sites (below); here: every return
		n := 0
		for _, b := range g.Blocks {
			if ret, ok := an.LastInstr(b).(*ssa.Return); ok && len(ret.Results) == 1 {
				n++
				if !bp.nonNegAt(ret.Results[0], b) {
					return false
				}
			}
		}
		return n > 0
	case *ssa.Phi:
		for i, e := range x.Edges {
			if !bp.nonNegAt(e, x.Block().Preds[i]) {
				return false
			}
		}
		return true
	case *ssa.BinOp:
		switch x.Op {
		case token.ADD, token.MUL:
			return bp.nonNegAt(x.X, blk) && bp.nonNegAt(x.Y, blk)
		case token.REM, token.QUO, token.SHR:
			return bp.nonNegAt(x.X, blk) && (x.Op == token.SHR || bp.nonNegAt(x.Y, blk))
		case token.AND:
			return bp.nonNegAt(x.X, blk) || bp.nonNegAt(x.Y, blk)
		case token.SUB:
			// a - b with a dominating b <= a / a >= b
			ok := false
			if blk != nil {
				cmpFacts(blk.Parent(), blk, func(l ssa.Value, op token.Token, r ssa.Value) {
					if sameInt(l, x.X, 0) && sameInt(r, x.Y, 0) && (op == token.GEQ || op == token.GTR || op == token.EQL) ||
						sameInt(l, x.Y, 0) && sameInt(r, x.X, 0) && (op == token.LEQ || op == token.LSS || op == token.EQL) {
						ok = true
					}
				})
			}
			return ok
		}
		return false
	case *ssa.Parameter:
		fn := x.Parent()
		if fn == nil || !an.PrivateHelper(fn) {
			return false
		}
		idx := -1
		for i, p := range fn.Params {
			if p == x {
				idx = i
			}
		}
		if idx < 0 {
			return false
		}
		root := fn
		if o := fn.Origin(); o != nil {
			root = o
		}
		callers := callerIndex(bp.c)[root]
		if len(callers) == 0 {
			return false
		}
		n := 0
		for _, caller := range uniqFuncs(callers) {
			handed := false
			an.Instrs(caller, func(in ssa.Instruction) {
				for _, op := range in.Operands(nil) {
					if op != nil && *op == ssa.Value(fn) {
						if ci, isCall := in.(ssa.CallInstruction); !isCall || ci.Common().Value != ssa.Value(fn) {
							handed = true
						}
					}
				}
			})
			if handed {
				return false // used as a value: call sites unknown
			}
			for _, ci := range calls(caller) {
				g := an.StaticCallee(ci.Common())
				if g == nil {
					continue
				}
				if o := g.Origin(); o != nil {
					g = o
				}
				if g != root {
					continue
				}
				if _, isCall := ci.(*ssa.Call); !isCall || len(ci.Common().Args) != len(fn.Params) {
					return false // go / defer, or a bound receiver: not followed
				}
				n++
				if !bp.nonNegAt(ci.Common().Args[idx], ci.Block()) {
					return false
				}
			}
		}
		return n > 0
	case *ssa.Convert:
		// widening of a non-negative / unsigned smaller integer
		src, ok := x.X.Type().Underlying().(*types.Basic)
		dst, ok2 := x.Type().Underlying().(*types.Basic)
		if !ok || !ok2 || src.Info()&types.IsInteger == 0 {
			return false
		}
		sz := func(b *types.Basic) int64 { return types.SizesFor("gc", "amd64").Sizeof(b) }
		if src.Info()&types.IsUnsigned != 0 {
			return sz(src) < sz(dst)
		}
		return sz(src) <= sz(dst) && bp.nonNegAt(x.X, blk)
	}
	return false
}

func uniqFuncs(fs []*ssa.Function) []*ssa.Function {
	seen := map[*ssa.Function]bool{}
	var out []*ssa.Function
	for _, f := range fs {
		if !seen[f] {
			seen[f] = true
			out = append(out, f)
		}
	}
	return out
}

// belowLenAt: v < len(x) (strict) or v ≤ len(x) (!strict) whenever control is in blk.
func (bp *boundsProver) belowLenAt(v, x ssa.Value, strict bool, blk *ssa.BasicBlock) bool {
	x = stripSliceConv(x)
	kind := "le"
	if strict {
		kind = "lt"
	}
	return bp.memo(nnKey{kind, v, x, blk}, func() bool { return bp.belowLen1(v, x, strict, blk) })
}

func (bp *boundsProver) belowLen1(v, x ssa.Value, strict bool, blk *ssa.BasicBlock) bool {
	if la, ok := lenArg(v); ok && !strict && stripSliceConv(la) == x {
		return true
	}
	// the position of a byte found in x (`end := bytes.IndexByte(b, '"')`): below len(x) by the
	// function's contract (it is -1 or an index into x)
	if call, isCall := v.(*ssa.Call); isCall && len(call.Call.Args) == 2 && stripSliceConv(call.Call.Args[0]) == x {
		switch an.CalleeName(&call.Call) {
		case "bytes.IndexByte", "strings.IndexByte", "bytes.Index", "strings.Index", "bytes.IndexRune", "strings.IndexRune", "bytes.IndexAny", "strings.IndexAny":
			return true
		}
	}
	ok := false
	cmpFacts(blk.Parent(), blk, func(l ssa.Value, op token.Token, r ssa.Value) {
		if ok {
			return
		}
		if la, isLen := lenArg(r); isLen && stripSliceConv(la) == x && sameInt(l, v, 0) {
			// v < len(x); v <= len(x) and v == len(x) only for the non-strict bound
			if op == token.LSS || !strict && (op == token.LEQ || op == token.EQL) {
				ok = true
			}
		}
		if la, isLen := lenArg(l); isLen && stripSliceConv(la) == x && sameInt(r, v, 0) {
			if op == token.GTR || !strict && (op == token.GEQ || op == token.EQL) {
				ok = true
			}
		}
	})
	if ok {
		return true
	}
	// a φ every edge of which is below the length on its way in (the loop counter of a scan
	// that is left by `break`: `for i < len(b) { if … { break }; i++ }` leaves i ≤ len(b))
	if !strict {
		if ph, isPhi := v.(*ssa.Phi); isPhi {
			for i, e := range ph.Edges {
				if !bp.belowLenAt(e, x, false, ph.Block().Preds[i]) {
					return false
				}
			}
			return true
		}
		// w+1 with w < len(x)
		if b, isBin := v.(*ssa.BinOp); isBin && b.Op == token.ADD {
			if k, isK := an.ConstInt(b.Y); isK && k == 1 {
				return bp.belowLenAt(b.X, x, true, blk)
			}
		}
		// the result of a private scanner `for i < len(b) && … { i++ }; return i` applied to (x, start ≤ len)
		if call, isCall := v.(*ssa.Call); isCall {
			if g := an.StaticCallee(&call.Call); g != nil && an.PrivateHelper(g) && g.Signature.Results().Len() == 1 && len(g.Blocks) > 0 {
				// which parameter of g is x?
				var px ssa.Value
				for i, a := range call.Call.Args {
					if i < len(g.Params) && stripSliceConv(a) == x {
						px = g.Params[i]
					}
				}
				if px == nil {
					return false
				}
				n := 0
				for _, b := range g.Blocks {
					ret, isRet := an.LastInstr(b).(*ssa.Return)
					if !isRet || len(ret.Results) != 1 {
						continue
					}
					n++
					if !bp.retBelowLen(ret.Results[0], px, b, call) {
						return false
					}
				}
				return n > 0
			}
		}
	}
	return false
}

// retBelowLen: inside the callee, the returned value is ≤ len(px); a parameter returned as it
// came in is judged at the call site.
func (bp *boundsProver) retBelowLen(v, px ssa.Value, blk *ssa.BasicBlock, site *ssa.Call) bool {
	return bp.memo(nnKey{"ret", v, site, blk}, func() bool { return bp.retBelowLen1(v, px, blk, site) })
}

func (bp *boundsProver) retBelowLen1(v, px ssa.Value, blk *ssa.BasicBlock, site *ssa.Call) bool {
	if p, isParam := v.(*ssa.Parameter); isParam {
		g := p.Parent()
		for i, q := range g.Params {
			if q == p && i < len(site.Call.Args) {
				var x ssa.Value
				for j, q2 := range g.Params {
					if q2 == px && j < len(site.Call.Args) {
						x = site.Call.Args[j]
					}
				}
				return x != nil && bp.belowLenAt(site.Call.Args[i], x, false, site.Block())
			}
		}
		return false
	}
	if ph, isPhi := v.(*ssa.Phi); isPhi {
		// the header test may already bound the φ itself here
		if bp.belowLenAt(v, px, false, blk) {
			return true
		}
		for i, e := range ph.Edges {
			if !bp.retBelowLen(e, px, ph.Block().Preds[i], site) {
				return false
			}
		}
		return true
	}
	return bp.belowLenAt(v, px, false, blk)
}

// leqAt: a ≤ b whenever control is in blk: b is a, or b grows from a by non-negative steps.
func (bp *boundsProver) leqAt(a, b ssa.Value, blk *ssa.BasicBlock) bool {
	if sameInt(a, b, 0) {
		return true
	}
	return bp.memo(nnKey{"leq", b, a, blk}, func() bool { return bp.leq1(a, b, blk) })
}

func (bp *boundsProver) leq1(a, b ssa.Value, blk *ssa.BasicBlock) bool {
	switch x := b.(type) {
	case *ssa.Phi:
		for i, e := range x.Edges {
			if !bp.leqAt(a, e, x.Block().Preds[i]) {
				return false
			}
		}
		return true
	case *ssa.BinOp:
		if x.Op == token.ADD {
			return bp.leqAt(a, x.X, blk) && bp.nonNegAt(x.Y, blk) || bp.leqAt(a, x.Y, blk) && bp.nonNegAt(x.X, blk)
		}
	}
	ok := false
	cmpFacts(blk.Parent(), blk, func(l ssa.Value, op token.Token, r ssa.Value) {
		if sameInt(l, a, 0) && sameInt(r, b, 0) && (op == token.LEQ || op == token.LSS || op == token.EQL) ||
			sameInt(l, b, 0) && sameInt(r, a, 0) && (op == token.GEQ || op == token.GTR || op == token.EQL) {
			ok = true
		}
	})
	return ok
}

// stripSliceConv: the slice / string value itself behind a type change.
func stripSliceConv(v ssa.Value) ssa.Value {
	for {
		ct, ok := v.(*ssa.ChangeType)
		if !ok {
			return v
		}
		v = ct.X
	}
}

// indexInRange: x[idx] cannot be out of range at `at`.
func (bp *boundsProver) indexInRange(x, idx ssa.Value, at *ssa.BasicBlock) bool {
	if _, isSliceOrString := sliceOrString(x); !isSliceOrString {
		return false
	}
	return bp.belowLenAt(idx, x, true, at) && bp.nonNegAt(idx, at)
}

// sliceInRange: x[lo:hi] cannot be out of range at `at` (0 ≤ lo ≤ hi ≤ len(x); cap ≥ len).
func (bp *boundsProver) sliceInRange(x, lo, hi ssa.Value, at *ssa.BasicBlock) bool {
	if _, ok := sliceOrString(x); !ok {
		return false
	}
	switch {
	case lo != nil && hi != nil:
		return bp.nonNegAt(lo, at) && bp.leqAt(lo, hi, at) && bp.belowLenAt(hi, x, false, at)
	case lo != nil:
		return bp.nonNegAt(lo, at) && bp.belowLenAt(lo, x, false, at)
	case hi != nil:
		return bp.nonNegAt(hi, at) && bp.belowLenAt(hi, x, false, at)
	}
	return true
}

func sliceOrString(x ssa.Value) (types.Type, bool) {
	switch t := x.Type().Underlying().(type) {
	case *types.Slice:
		return t, true
	case *types.Basic:
		return t, t.Info()&types.IsString != 0
	}
	return nil, false
}

// lenFromConds: what a list of branch conditions (helper verdicts spliced in: an.ReachCondsDeep /
// an.SpliceVerdicts) says about the integer whose access path is subject — the intersection of
// the comparisons of that value with constants. tested: at least one such comparison was seen.
// The other operand may be a constant of the function that tested it or a parameter that the
// call chain binds to a constant (`elems.expect("EVENT", 3)` testing `len(elems) != length`).
func lenFromConds(conds []an.Cond, subject string) (an.Set, bool) {
	set := an.Full()
	tested := false
	for _, cd := range conds {
		cd = an.NormCond(cd)
		b, ok := cd.V.(*ssa.BinOp)
		if !ok {
			continue
		}
		konst := func(v ssa.Value) (int64, bool) {
			if k, ok := an.ConstInt(v); ok {
				return k, true
			}
			p := cd.Path(v)
			if strings.HasPrefix(p, "const:") {
				if k, err := strconv.ParseInt(strings.TrimPrefix(p, "const:"), 10, 64); err == nil {
					return k, true
				}
			}
			return 0, false
		}
		op := b.Op
		var k int64
		switch {
		case cd.Path(b.X) == subject:
			kk, ok := konst(b.Y)
			if !ok {
				continue
			}
			k = kk
		case cd.Path(b.Y) == subject:
			kk, ok := konst(b.X)
			if !ok {
				continue
			}
			k = kk
			// mirror: k op subject  ≡  subject op' k
			switch op {
			case token.LSS:
				op = token.GTR
			case token.LEQ:
				op = token.GEQ
			case token.GTR:
				op = token.LSS
			case token.GEQ:
				op = token.LEQ
			}
		default:
			continue
		}
		if !cd.True {
			switch op {
			case token.EQL:
				op = token.NEQ
			case token.NEQ:
				op = token.EQL
			case token.LSS:
				op = token.GEQ
			case token.LEQ:
				op = token.GTR
			case token.GTR:
				op = token.LEQ
			case token.GEQ:
				op = token.LSS
			}
		}
		var atom an.Set
		switch op {
		case token.EQL:
			atom = an.Range(k, k)
		case token.NEQ:
			atom = an.Range(an.NegInf, k-1).Union(an.Range(k+1, an.PosInf))
		case token.LSS:
			atom = an.Range(an.NegInf, k-1)
		case token.LEQ:
			atom = an.Range(an.NegInf, k)
		case token.GTR:
			atom = an.Range(k+1, an.PosInf)
		case token.GEQ:
			atom = an.Range(k, an.PosInf)
		default:
			continue
		}
		tested = true
		set = set.Intersect(atom)
	}
	return set, tested
}

// lenAtDeep: the values len-subject f can have when control reaches blk of fn, reading the
// conditions of private helpers whose verdict fn tested (an error result that was nil, a bool)
// in fn's terms. ok=false: paths not enumerable.
func lenAtDeep(fn *ssa.Function, blk *ssa.BasicBlock, f string) (an.Set, bool) {
	paths, ok := an.ReachCondsDeep(fn, blk)
	if !ok || len(paths) == 0 {
		return nil, false
	}
	acc := an.Empty()
	for _, cs := range paths {
		s, _ := lenFromConds(cs, f)
		if os.Getenv("MOCVERIF_DEBUG_LEN") != "" {
			var ps []string
			for _, cd := range cs {
				ps = append(ps, fmt.Sprintf("%s=%v", cd.Path(cd.V), cd.True))
			}
			fmt.Fprintf(os.Stderr, "lenAtDeep %s @%s: %s => %v\n", f, fn.Name(), strings.Join(ps, " ; "), s)
		}
		acc = acc.Union(s)
	}
	return acc, true
}
