package rules

import (
	"fmt"
	"go/constant"
	"go/token"
	"go/types"
	"sort"
	"strings"

	"golang.org/x/tools/go/ssa"

	"mocverif/internal/an"
	"mocverif/internal/core"
)

func init() {
	reg(&core.RuleInfo{Name: "MW-TEMPLATE", Props: []string{"C17", "C18", "C19"}, Engine: "CFG", Floor: 28, Confirmed: 30,
		Doc: "every middleware base return is forward-the-parameter or reject-with-one-reply", Run: runMwTemplate})
	reg(&core.RuleInfo{Name: "MW-REJECT-TYPE", Props: []string{"C17", "C18"}, Engine: "PROV", Floor: 10, Confirmed: 19,
		Doc: "rejections are OK(false) for EVENT, CLOSED for REQ/COUNT, with the request's id", Run: runMwRejectType})
	reg(&core.RuleInfo{Name: "MW-BOUND", Props: []string{"C17"}, Engine: "INT", Floor: 10, Confirmed: 16,
		Doc: "reject set of each measure relative to its configured limit", Run: runMwBound})
	reg(&core.RuleInfo{Name: "NIP11-TAB", Props: []string{"C17"}, Engine: "TAB", Floor: 7, Confirmed: 7,
		Doc: "each NIP-11 limitation field is wired to its own middleware, guarded by != 0", Run: runNip11Tab})
	reg(&core.RuleInfo{Name: "NIP11-NIL", Props: []string{"C17"}, Engine: "CFG", Floor: 1, Confirmed: 7,
		Doc: "the optional limitation block is dereferenced only behind a nil test", Run: runNip11Nil})
}

// mwBases: named struct types (any module package) whose pointer or value
// implements SimpleMiddlewareBase.
type mwBase struct {
	name   string
	pkg    *ssa.Package
	client *ssa.Function
	server *ssa.Function
	start  *ssa.Function
	end    *ssa.Function
}

func mwBases(P *core.Program) []*mwBase {
	it := P.NamedType(P.Root, "SimpleMiddlewareBase")
	if it == nil {
		return nil
	}
	ifc := it.Underlying().(*types.Interface)
	var out []*mwBase
	for _, pkg := range []*ssa.Package{P.Root, P.Prom, P.Sqlite} {
		sc := pkg.Pkg.Scope()
		for _, n := range sc.Names() {
			tn, ok := sc.Lookup(n).(*types.TypeName)
			if !ok {
				continue
			}
			nt, ok := tn.Type().(*types.Named)
			if !ok {
				continue
			}
			if _, isStruct := nt.Underlying().(*types.Struct); !isStruct {
				continue
			}
			if !types.Implements(types.NewPointer(nt), ifc) && !types.Implements(nt, ifc) {
				continue
			}
			b := &mwBase{name: n, pkg: pkg}
			b.client = P.Method(pkg, n, "ServeNostrClientMsg")
			b.server = P.Method(pkg, n, "ServeNostrServerMsg")
			b.start = P.Method(pkg, n, "ServeNostrStart")
			b.end = P.Method(pkg, n, "ServeNostrEnd")
			if b.client != nil && b.server != nil {
				out = append(out, b)
			}
		}
	}
	// keep only types actually handed to NewSimpleMiddleware
	used := map[string]bool{}
	nsm := P.Func(P.Root, "NewSimpleMiddleware")
	for _, fn := range P.ModFuncs {
		for _, call := range callsTo(fn, nsm) {
			used[typeNameOf(an.Unwrap(call.Call.Args[0]).Type())] = true
		}
	}
	var kept []*mwBase
	for _, b := range out {
		if used[b.name] {
			kept = append(kept, b)
		}
	}
	sort.Slice(kept, func(i, j int) bool { return kept[i].name < kept[j].name })
	return kept
}

func mwProps(b *mwBase) []string {
	switch {
	case b.pkg.Pkg.Name() == "prometheus":
		return []string{"C19"}
	case strings.Contains(b.name, "MaxSubscriptions"), strings.Contains(b.name, "UniqueFilter"):
		return []string{"C18"}
	}
	return []string{"C17"}
}

// chanElem: one value a reply channel carries.
type chanElem struct {
	val    ssa.Value
	inLoop bool
	spread bool // val is a slice parameter whose elements are the channel's contents (items...)
}

// chanLiteral: the contents of a channel that is made, filled and closed
// before it is handed out — whatever the spelling: newClosedBufCh(a, b),
// make + sends + `defer close`, make + sends + close before the return, or a
// module helper doing one of these with its own parameters (the elements are
// then the call's arguments; a slice built by appends and spread into such a
// helper contributes its elements). ok=false: not such a channel (not closed
// on the way out, made elsewhere, …).
func chanLiteral(fn *ssa.Function, v ssa.Value, depth int) ([]chanElem, bool) {
	elems, closed, ok := chanFill(fn, v, depth)
	return elems, ok && closed
}

// sliceLiteral: the elements of a slice the function builds itself — a
// variadic argument list, nil, or make(…, 0, …) grown by appends (what a loop
// appends is marked inLoop) — or a parameter passed on whole (spread).
func sliceLiteral(v ssa.Value, depth int) ([]chanElem, bool) {
	v = an.Unwrap(v)
	if depth > 8 {
		return nil, false
	}
	if vs, ok := an.VariadicElems(v); ok {
		var out []chanElem
		for _, e := range vs {
			out = append(out, chanElem{val: e})
		}
		return out, true
	}
	switch x := v.(type) {
	case *ssa.Parameter:
		return []chanElem{{val: x, spread: true}}, true
	case *ssa.MakeSlice:
		if k, ok := an.ConstInt(x.Len); ok && k == 0 {
			return nil, true
		}
	case *ssa.Call:
		if b, ok := x.Call.Value.(*ssa.Builtin); ok && b.Name() == "append" && len(x.Call.Args) == 2 {
			base, ok1 := sliceLiteral(x.Call.Args[0], depth+1)
			more, ok2 := sliceLiteral(x.Call.Args[1], depth+1)
			return append(append([]chanElem(nil), base...), more...), ok1 && ok2
		}
	case *ssa.Phi:
		// loop-carried: s = append(s, e) in the body
		h := x.Block()
		if len(an.Latches(h)) == 0 {
			return nil, false
		}
		var out []chanElem
		inits := 0
		for i, pb := range h.Preds {
			if !h.Dominates(pb) {
				init, ok := sliceLiteral(x.Edges[i], depth+1)
				if !ok || inits > 0 {
					return nil, false
				}
				inits++
				out = append(init, out...)
				continue
			}
			// back edge: a chain of appends that starts at the phi itself
			cur := an.Unwrap(x.Edges[i])
			var added []chanElem
			for cur != ssa.Value(x) {
				call, ok := cur.(*ssa.Call)
				if !ok {
					return nil, false
				}
				b, ok := call.Call.Value.(*ssa.Builtin)
				if !ok || b.Name() != "append" || len(call.Call.Args) != 2 {
					return nil, false
				}
				more, ok := sliceLiteral(call.Call.Args[1], depth+1)
				if !ok {
					return nil, false
				}
				for j := range more {
					more[j].inLoop = true
				}
				added = append(more, added...)
				cur = an.Unwrap(call.Call.Args[0])
				// an inner `if` that appends only sometimes: phi of (cur, append(cur, …))
				if p2, isPhi := cur.(*ssa.Phi); isPhi && p2 != x {
					return nil, false
				}
			}
			out = append(out, added...)
		}
		return out, inits == 1
	}
	return nil, false
}

// chanFill: what a channel held in v (made here, or handed back by a module
// helper) has been sent by the time fn is done with it, and whether it has
// been closed by then.
func chanFill(fn *ssa.Function, v ssa.Value, depth int) (elems []chanElem, closed bool, ok bool) {
	v = an.Unwrap(v)
	if an.IsNilConst(v) || depth > 3 {
		return nil, false, false
	}
	var out []chanElem
	switch x := v.(type) {
	case *ssa.Call:
		g := an.StaticCallee(&x.Call)
		if !an.InModuleFn(g) || len(g.Params) != len(x.Call.Args) {
			return nil, false, false
		}
		first := true
		for _, rb := range an.ReturnBlocks(g) {
			rv := an.ReturnValues(an.LastInstr(rb).(*ssa.Return))
			if len(rv) == 0 {
				return nil, false, false
			}
			es, cl, ok := chanFill(g, rv[0], depth+1)
			if !ok || (!first && (len(es) != len(out) || cl != closed)) {
				return nil, false, false
			}
			first, closed = false, cl
			out = out[:0]
			for _, e := range es {
				// a parameter of the helper is the caller's argument
				if par, isPar := an.Unwrap(e.val).(*ssa.Parameter); isPar {
					for i, gp := range g.Params {
						if gp == par {
							e.val = x.Call.Args[i]
						}
					}
					if e.spread {
						vs, okv := sliceLiteral(e.val, 0)
						if !okv {
							return nil, false, false
						}
						for _, v := range vs {
							v.inLoop = v.inLoop || e.inLoop
							out = append(out, v)
						}
						continue
					}
				}
				out = append(out, e)
			}
		}
		if first {
			return nil, false, false
		}
	case *ssa.MakeChan:
		if x.Parent() != fn {
			return nil, false, false
		}
	default:
		return nil, false, false
	}
	var sends []*ssa.Send
	deferred := false
	var closes []*ssa.Call
	an.Instrs(fn, func(in ssa.Instruction) {
		switch y := in.(type) {
		case *ssa.Send:
			if an.Unwrap(y.Chan) == v {
				sends = append(sends, y)
			}
		case *ssa.Defer:
			if b, ok := y.Call.Value.(*ssa.Builtin); ok && b.Name() == "close" && an.Unwrap(y.Call.Args[0]) == v {
				deferred = true
			}
		case *ssa.Call:
			if b, ok := y.Call.Value.(*ssa.Builtin); ok && b.Name() == "close" && an.Unwrap(y.Call.Args[0]) == v {
				closes = append(closes, y)
			}
		}
	})
	if closed && (len(sends) > 0 || deferred || len(closes) > 0) {
		return nil, false, false // sending on / closing a closed channel
	}
	if deferred {
		closed = true
	} else if len(closes) > 0 {
		// closed explicitly: on every way to a return that hands the channel out
		closed = true
		for _, rb := range an.ReturnBlocks(fn) {
			hands := false
			for _, rv := range an.ReturnValues(an.LastInstr(rb).(*ssa.Return)) {
				if an.Unwrap(rv) == v {
					hands = true
				}
			}
			if !hands {
				continue
			}
			dom := false
			for _, cl := range closes {
				if cl.Block() == rb || cl.Block().Dominates(rb) {
					dom = true
				}
			}
			if !dom {
				closed = false
			}
		}
	}
	sort.SliceStable(sends, func(i, j int) bool { return before(sends[i], sends[j]) })
	for _, sd := range sends {
		// `for _, item := range items { ch <- item }` with items a parameter: the caller's list
		if u, isLoad := an.Unwrap(sd.X).(*ssa.UnOp); isLoad && an.InLoop(sd.Block()) {
			if ia, isIA := u.X.(*ssa.IndexAddr); isIA {
				if par, isPar := an.Unwrap(ia.X).(*ssa.Parameter); isPar {
					if all, _ := forAllLoopAt(sd.X, sd.Block()); all {
						out = append(out, chanElem{val: par, spread: true})
						continue
					}
				}
			}
		}
		out = append(out, chanElem{val: sd.X, inLoop: an.InLoop(sd.Block())})
	}
	return out, closed, true
}

// chanContents: the values a returned reply channel carries, in order (no
// element sent in a loop).
func chanContents(fn *ssa.Function, v ssa.Value) ([]ssa.Value, bool) {
	elems, ok := chanLiteral(fn, v, 0)
	if !ok {
		return nil, false
	}
	var out []ssa.Value
	for _, e := range elems {
		if e.inLoop {
			return nil, false
		}
		out = append(out, e.val)
	}
	return out, true
}

type mwReturn struct {
	fn      *ssa.Function
	ret     *ssa.Return
	kind    string // forward | reject | drop | delegate | other
	reply   ssa.Value
	detail  string
	msgPath string // access path of the message parameter in fn
	// in: the returned triple is built by a private helper (`return reject(id, …)`);
	// values of the reply are the helper's, read through this call
	in *ssa.CallCommon
	// clause / via: the return is a tail shared by several clauses of the type switch (each
	// clause only sets per-clause variables): this entry stands for the paths through the
	// clause of message type `clause`, which all pass block `via`
	clause string
	via    *ssa.BasicBlock
}

// msgType: the message type of the clause this return belongs to.
func (r mwReturn) msgType() string {
	if r.clause != "" {
		return r.clause
	}
	return assertedType(r.fn, r.ret.Block(), r.msgPath)
}

// keep: the paths this entry stands for (nil: all paths to the return).
func (r mwReturn) keep() an.PathKeep {
	if r.via != nil {
		return an.Via(r.via)
	}
	return nil
}

// clauseEntries: the blocks entered exactly when msgPath was asserted to a client message type.
func clauseEntries(fn *ssa.Function, msgPath string) map[*ssa.BasicBlock]string {
	out := map[*ssa.BasicBlock]string{}
	for _, b := range fn.Blocks {
		iff, ok := an.LastInstr(b).(*ssa.If)
		if !ok || len(b.Succs) != 2 {
			continue
		}
		ex, ok := iff.Cond.(*ssa.Extract)
		if !ok || ex.Index != 1 {
			continue
		}
		ta, ok := ex.Tuple.(*ssa.TypeAssert)
		if !ok || an.PathOf(ta.X) != msgPath {
			continue
		}
		if n := typeNameOf(ta.AssertedType); strings.HasPrefix(n, "Client") && len(b.Succs[0].Preds) == 1 {
			out[b.Succs[0]] = n
		}
	}
	return out
}

func (r mwReturn) pathOf(v ssa.Value) string {
	if r.in != nil {
		return an.PathOfIn(v, r.in)
	}
	// a value of a private helper that builds the reply (`return nil, m.reject(id), nil`):
	// read through the helper's call that reaches this return
	if in, isIn := v.(ssa.Instruction); isIn && in.Parent() != r.fn && r.fn != nil {
		if site := r.siteOf(in.Parent()); site != nil {
			return an.PathOfIn(v, &site.Call)
		}
	}
	if p, isP := v.(*ssa.Parameter); isP && p.Parent() != r.fn && r.fn != nil {
		if site := r.siteOf(p.Parent()); site != nil {
			return an.PathOfIn(v, &site.Call)
		}
	}
	return an.PathOf(v)
}

// siteOf: the call of helper g in the returning function on the way to this return.
func (r mwReturn) siteOf(g *ssa.Function) *ssa.Call {
	var site *ssa.Call
	for _, ci := range calls(r.fn) {
		call, ok := ci.(*ssa.Call)
		if !ok || an.StaticCallee(&call.Call) != g {
			continue
		}
		if call.Block() == r.ret.Block() || call.Block().Dominates(r.ret.Block()) {
			site = call
		}
	}
	return site
}

// classifyClientReturns classifies the returns of a ServeNostrClientMsg-shaped
// function (3 results), following same-receiver delegation one level.
func classifyClientReturns(P *core.Program, fn *ssa.Function, msgParam int, depth int) []mwReturn {
	var out []mwReturn
	msgPath := "p:" + fn.Params[msgParam].Name()
	for _, rb := range an.ReturnBlocks(fn) {
		r := an.LastInstr(rb).(*ssa.Return)
		res := an.ReturnValues(r)
		// (a defensive branch that cannot be taken: `if !errors.Is(err, errFull) { return …err }` where
		// errFull is all the callee ever fails with)
		if deadByErrorsIs(P, fn, rb) {
			continue
		}
		mr := mwReturn{fn: fn, ret: r, msgPath: msgPath}
		// delegation: return m.helper(ctx, msg)
		if ex, ok := res[0].(*ssa.Extract); ok && depth < 2 {
			if call, ok := ex.Tuple.(*ssa.Call); ok {
				if sc := an.StaticCallee(&call.Call); sc != nil && P.InModule(sc) && sc.Signature.Results().Len() == len(res) {
					// which parameter of the helper receives (an alias of) msg?
					mp := -1
					for i, a := range call.Call.Args {
						if an.PathOf(a) == msgPath {
							mp = i
						}
					}
					if mp >= 0 {
						sub := classifyClientReturns(P, sc, mp, depth+1)
						out = append(out, sub...)
						continue
					}
				}
			}
		}
		// a private helper that only builds the result triple from its arguments
		host := fn
		if ex, ok := res[0].(*ssa.Extract); ok && ex.Index == 0 {
			if call, ok := ex.Tuple.(*ssa.Call); ok {
				if g := an.StaticCallee(&call.Call); an.PrivateHelper(g) && g.Signature.Results().Len() == len(res) && len(an.ReturnBlocks(g)) == 1 && len(g.Params) == len(call.Call.Args) {
					whole := true
					for i := range res {
						if e2, ok := res[i].(*ssa.Extract); !ok || e2.Tuple != ssa.Value(call) || e2.Index != i {
							whole = false
						}
					}
					if whole {
						res = an.ReturnValues(an.LastInstr(an.ReturnBlocks(g)[0]).(*ssa.Return))
						host = g
						mr.in = &call.Call
					}
				}
			}
		}
		fwd, fok := chanContents(host, res[0])
		nilFwd := an.IsNilConst(an.Unwrap(res[0]))
		errNil := an.IsNilConst(res[len(res)-1])
		var rej []ssa.Value
		rok, nilRej := false, true
		if len(res) == 3 {
			rej, rok = chanContents(host, res[1])
			nilRej = an.IsNilConst(an.Unwrap(res[1]))
		}
		switch {
		case fok && nilRej && errNil && len(fwd) == 1 && mr.pathOf(fwd[0]) == msgPath:
			mr.kind = "forward"
		case len(res) == 3 && nilFwd && rok && errNil && len(rej) == 1:
			mr.kind, mr.reply = "reject", rej[0]
		case nilFwd && nilRej && errNil:
			mr.kind = "drop"
		case nilFwd && nilRej && !errNil && (onlyWithoutCtxState(fn, rb) || errorOnlyNoState(fn, rb, 0)):
			// the per-connection state is missing from the context (ServeNostrStart was never run for
			// it): the session ends with an error where a failed type assertion used to panic
			mr.kind = "nostate"
		default:
			mr.kind = "other"
			mr.detail = fmt.Sprintf("forward=%v(%d) reject=%v(%d) err-nil=%v", fok, len(fwd), rok, len(rej), errNil)
			if fok && len(fwd) == 1 {
				mr.detail += " forwarded=" + an.PathOf(fwd[0])
			}
		}
		// a tail shared by several clauses: one entry per clause that reaches it
		if (mr.kind == "reject" || mr.kind == "forward") && mr.in == nil && assertedType(fn, rb, msgPath) == "" {
			var vias []*ssa.BasicBlock
			ents := clauseEntries(fn, msgPath)
			for b := range ents {
				if b == rb || an.Reachable(b, rb, nil, nil) {
					vias = append(vias, b)
				}
			}
			sort.Slice(vias, func(i, j int) bool { return vias[i].Index < vias[j].Index })
			if mr.kind == "reject" && len(vias) >= 2 {
				for _, b := range vias {
					m2 := mr
					m2.clause, m2.via = ents[b], b
					out = append(out, m2)
				}
				continue
			}
		}
		out = append(out, mr)
	}
	return out
}

func runMwTemplate(c *core.Ctx) {
	P := c.P
	bases := mwBases(P)
	if len(bases) == 0 {
		c.NoAnchor(nil, "implementers of SimpleMiddlewareBase")
		return
	}
	for _, b := range bases {
		props := mwProps(b)
		c.CountFuncs(2)
		// client side
		rets := classifyClientReturns(P, b.client, 2, 0)
		bad := []string{}
		nf, nr := 0, 0
		for _, r := range rets {
			switch r.kind {
			case "forward":
				nf++
			case "reject":
				nr++
			case "nostate":
			default:
				bad = append(bad, fmt.Sprintf("%s: %s %s", P.Pos(r.ret.Pos()), r.kind, r.detail))
			}
		}
		c.CountSites(len(rets))
		c.Check(len(bad) == 0 && nf >= 1, props, b.name, "client-returns", P.Pos(b.client.Pos()),
			fmt.Sprintf("%d returns: %d forward exactly the received message, %d answer with exactly one reply and forward nothing", len(rets), nf, nr),
			"a return neither forwards exactly the received message nor rejects it with exactly one reply: "+strings.Join(bad, "; "))
		// server side: forward the parameter (or, for the send-side unique filter, drop)
		srets := classifyClientReturns(P, b.server, 2, 0)
		sbad := []string{}
		ndrop := 0
		for _, r := range srets {
			switch r.kind {
			case "forward":
			case "nostate":
				// (the session's state is missing: the session ends with an error, as on the client side)
				ndrop++
			case "drop":
				ndrop++
				if !strings.Contains(b.name, "SendEventUniqueFilter") {
					sbad = append(sbad, P.Pos(r.ret.Pos())+": server message dropped")
				}
			default:
				sbad = append(sbad, fmt.Sprintf("%s: %s %s", P.Pos(r.ret.Pos()), r.kind, r.detail))
			}
		}
		c.CountSites(len(srets))
		c.Check(len(sbad) == 0 && len(srets) > ndrop, props, b.name, "server-returns", P.Pos(b.server.Pos()),
			fmt.Sprintf("%d returns forward exactly the received server message (%d drop it)", len(srets)-ndrop, ndrop),
			"a server message is not passed through unchanged: "+strings.Join(sbad, "; "))
	}
}

// assertedType: the *T the message was asserted to on the way to block b.
func assertedType(fn *ssa.Function, b *ssa.BasicBlock, msgPath string) string {
	name := ""
	for _, g := range an.Guards(fn, b) {
		ex, ok := g.V.(*ssa.Extract)
		if !ok || ex.Index != 1 || !g.True {
			continue
		}
		ta, ok := ex.Tuple.(*ssa.TypeAssert)
		if !ok || an.PathOf(ta.X) != msgPath {
			continue
		}
		name = typeNameOf(ta.AssertedType)
	}
	if name == "" {
		// helper taking the typed message directly
		for _, p := range fn.Params {
			if "p:"+p.Name() == msgPath {
				if n := derefNamed(p.Type()); n != nil && strings.HasPrefix(n.Obj().Name(), "Client") && n.Obj().Name() != "ClientMsg" {
					name = n.Obj().Name()
				}
			}
		}
	}
	return name
}

// checkReply: reply constructor matches the message type and carries its id.
func checkReply(P *core.Program, r mwReturn, msgType string) (bool, string) {
	reply, msgPath := r.reply, r.msgPath
	call := an.CallOf(reply)
	if call == nil {
		// a local holding the constructor's result
		call = an.CallOf(an.LoadedValue(an.Unwrap(reply)))
	}
	if call == nil {
		return false, "reply is not a constructor call: " + an.PathOf(reply)
	}
	name := an.CalleeName(&call.Call)
	short := name[strings.LastIndex(name, ".")+1:]
	switch msgType {
	case "ClientEventMsg":
		if short != "NewServerOKMsg" {
			return false, "EVENT rejected with " + short + ", want NewServerOKMsg(id, false, …)"
		}
		if !isConstBool(call.Call.Args[1], false) {
			return false, "rejecting OK is not 'false'"
		}
		if got := r.pathOf(call.Call.Args[0]); got != msgPath+".Event.ID" {
			return false, "OK carries " + got + ", want " + msgPath + ".Event.ID"
		}
	case "ClientReqMsg", "ClientCountMsg":
		if short != "NewServerClosedMsg" && short != "NewServerClosedMsgf" {
			return false, msgType + " rejected with " + short + ", want NewServerClosedMsg[f](subID, …)"
		}
		if got := r.pathOf(call.Call.Args[0]); got != msgPath+".SubscriptionID" {
			return false, "CLOSED carries " + got + ", want " + msgPath + ".SubscriptionID"
		}
	default:
		return false, "rejection of a message of type " + msgType + " (only EVENT, REQ and COUNT have a protocol rejection)"
	}
	return true, short + "(" + r.pathOf(call.Call.Args[0]) + ", …)"
}

func runMwRejectType(c *core.Ctx) {
	P := c.P
	for _, b := range mwBases(P) {
		if b.pkg != P.Root {
			continue
		}
		props := mwProps(b)
		idx := map[string]int{}
		for _, r := range classifyClientReturns(P, b.client, 2, 0) {
			if r.kind != "reject" {
				continue
			}
			c.CountSites(1)
			mt := r.msgType()
			idx[mt]++
			construct := fmt.Sprintf("reject[%s]#%d", mt, idx[mt])
			ok, why := checkReply(P, r, mt)
			c.Check(ok, props, b.name, construct, P.Pos(r.ret.Pos()), why, why)
		}
	}
}

// ---------------------------------------------------------------- MW-BOUND

type boundRow struct {
	ctor    string // exported constructor
	msgType string
	measure string // access path template; %s = message path
	want    string // "above": reject (L,+inf); "below": reject (-inf,L)
	symHint string // substring the limit symbol must contain
}

var boundTable = []boundRow{
	{"NewMaxReqFiltersMiddleware", "ClientReqMsg", "len(%s.ReqFilters)", "above", "recv."},
	{"NewMaxReqFiltersMiddleware", "ClientCountMsg", "len(%s.ReqFilters)", "above", "recv."},
	{"NewMaxSubIDLengthMiddleware", "ClientReqMsg", "len(%s.SubscriptionID)", "above", "recv."},
	{"NewMaxSubIDLengthMiddleware", "ClientCountMsg", "len(%s.SubscriptionID)", "above", "recv."},
	{"NewMaxEventTagsMiddleware", "ClientEventMsg", "len(%s.Event.Tags)", "above", "recv."},
	{"NewMaxContentLengthMiddleware", "ClientEventMsg", "len(%s.Event.Content)", "above", "recv."},
	{"NewCreatedAtLowerLimitMiddleware", "ClientEventMsg", "call:time.Since(call:(*github.com/high-moctane/mocrelay.Event).CreatedAtTime(%s.Event))", "above", "recv."},
	{"NewCreatedAtUpperLimitMiddleware", "ClientEventMsg", "call:time.Until(call:(*github.com/high-moctane/mocrelay.Event).CreatedAtTime(%s.Event))", "above", "recv."},
	{"NewEventCreatedAtMiddleware", "ClientEventMsg", "call:time.Until(call:(*github.com/high-moctane/mocrelay.Event).CreatedAtTime(%s.Event))", "window", "recv."},
	{"NewMaxLimitMiddleware", "ClientReqMsg", "contains(%s.ReqFilters)", "pred-above", "recv."},
	{"NewMaxLimitMiddleware", "ClientCountMsg", "contains(%s.ReqFilters)", "pred-above", "recv."},
	{"NewRecvEventAllowFilterMiddleware", "ClientEventMsg", "match(%s.Event)", "reject-on-nomatch", ""},
	{"NewRecvEventDenyFilterMiddleware", "ClientEventMsg", "match(%s.Event)", "reject-on-match", ""},
}

// baseOfCtor: the SimpleMiddlewareBase implementer instantiated by an
// exported constructor.
func baseOfCtor(P *core.Program, bases []*mwBase, ctor string) *mwBase {
	fn := P.Func(P.Root, ctor)
	if fn == nil {
		return nil
	}
	for _, f := range an.RefClosure([]*ssa.Function{fn}, P.InModule) {
		var found *mwBase
		an.Instrs(f, func(in ssa.Instruction) {
			if a, ok := in.(*ssa.Alloc); ok {
				for _, b := range bases {
					if b.pkg == P.Root && typeNameOf(a.Type()) == b.name {
						found = b
					}
				}
			}
		})
		if found != nil {
			return found
		}
	}
	return nil
}

// symbolOf: the (single) limit symbol compared with the measure on the
// paths to block b.
func symbolsFor(fn *ssa.Function, measure string) []string {
	set := map[string]bool{}
	an.Instrs(fn, func(in ssa.Instruction) {
		b, ok := in.(*ssa.BinOp)
		if !ok {
			return
		}
		switch b.Op {
		case token.LSS, token.LEQ, token.GTR, token.GEQ:
		default:
			return
		}
		x, y := an.PathOf(b.X), an.PathOf(b.Y)
		if x == measure {
			set[y] = true
		}
		if y == measure {
			set[x] = true
		}
	})
	var out []string
	for k := range set {
		out = append(out, k)
	}
	sort.Strings(out)
	return out
}

func runMwBound(c *core.Ctx) {
	P := c.P
	bases := mwBases(P)
	for _, row := range boundTable {
		b := baseOfCtor(P, bases, row.ctor)
		if b == nil {
			c.NoAnchor(nil, row.ctor+" → base type")
			continue
		}
		fn := b.client
		msgPath := "p:" + fn.Params[2].Name()
		measure := fmt.Sprintf(row.measure, msgPath)
		construct := "bound[" + row.msgType + "]"
		// reject returns of this message type
		var rejects []*ssa.Return
		keeps := map[*ssa.Return]an.PathKeep{}
		for _, r := range classifyClientReturns(P, fn, 2, 0) {
			if r.kind == "reject" && r.fn == fn && r.msgType() == row.msgType {
				rejects = append(rejects, r.ret)
				keeps[r.ret] = r.keep()
			}
		}
		c.CountFuncs(1)
		c.CountSites(len(rejects))
		if len(rejects) == 0 {
			c.Bad(nil, b.name, construct, P.Pos(fn.Pos()), "no rejecting return for "+row.msgType+": the limit is not enforced for this message type")
			continue
		}
		pos := P.Pos(rejects[0].Pos())
		switch row.want {
		case "above", "window":
			syms := symbolsFor(fn, measure)
			if len(syms) == 0 {
				c.Bad(nil, b.name, construct, pos, "the rejection is not controlled by a comparison of "+measure+" with the configured limit (a different quantity is measured)")
				continue
			}
			if row.want == "above" {
				if len(syms) != 1 || !strings.Contains(syms[0], row.symHint) {
					c.Unknown(nil, b.name, construct, pos, fmt.Sprintf("measure compared with %v: want exactly one configured limit", syms))
					continue
				}
				fr := an.SymFrame(measure, syms[0])
				rej := an.Empty()
				var opq []an.Cond
				for _, r := range rejects {
					s, n, _ := fr.ReachSet(fn, r.Block(), keeps[r], &opq)
					c.CountPaths(n)
					rej = rej.Union(s)
				}
				c.Check(rej.Equal(an.Range(1, an.PosInf)), nil, b.name, construct, pos,
					"rejected iff "+measure+" ∈ "+rej.Format("L")+" with L = "+syms[0],
					"rejected when "+measure+" ∈ "+rej.Format("L")+" (L = "+syms[0]+"), want (L,+∞): a message exactly at the limit must pass, one above must not")
			} else {
				if len(syms) != 2 {
					c.Unknown(nil, b.name, construct, pos, fmt.Sprintf("window compared with %v: want two configured bounds", syms))
					continue
				}
				// accept sets of the forwarding return on the EVENT paths
				var fwd *ssa.Return
				for _, r := range classifyClientReturns(P, fn, 2, 0) {
					if r.kind == "forward" && r.fn == fn {
						fwd = r.ret
					}
				}
				if fwd == nil {
					c.Unknown(nil, b.name, construct, pos, "no forwarding return")
					continue
				}
				isEvent := func(p an.Path) bool {
					for _, cd := range p.Conds() {
						if ex, ok := cd.V.(*ssa.Extract); ok && cd.True {
							if ta, ok := ex.Tuple.(*ssa.TypeAssert); ok && typeNameOf(ta.AssertedType) == row.msgType {
								return true
							}
						}
					}
					return false
				}
				var parts []string
				lower, upper := false, false
				for _, sym := range syms {
					fr := an.SymFrame(measure, sym)
					acc, n, _ := fr.ReachSet(fn, fwd.Block(), isEvent, nil)
					c.CountPaths(n)
					parts = append(parts, acc.Format(sym))
					if acc.Equal(an.Range(0, an.PosInf)) {
						lower = true
					}
					if acc.Equal(an.Range(an.NegInf, 0)) {
						upper = true
					}
				}
				c.Check(lower && upper, nil, b.name, construct, pos, "an EVENT is forwarded iff the offset lies in "+strings.Join(parts, " ∩ "),
					"an EVENT is forwarded when the offset lies in "+strings.Join(parts, " ∩ ")+", want [from,+∞) ∩ (-∞,to]")
			}
		case "pred-above":
			// reject edge = ContainsFunc(msg.ReqFilters, pred) true; pred true-set over *f.Limit = (L,+inf)
			okAll := true
			detail := ""
			for _, r := range rejects {
				var pred *ssa.Function
				for _, g := range an.Guards(fn, r.Block()) {
					call, ok := g.V.(*ssa.Call)
					if !ok || !g.True {
						continue
					}
					// the test may be wrapped in a private predicate helper: exceeds(msg.ReqFilters)
					if h := an.StaticCallee(&call.Call); an.PrivateHelper(h) && len(an.ReturnBlocks(h)) == 1 {
						rv := an.ReturnValues(an.LastInstr(an.ReturnBlocks(h)[0]).(*ssa.Return))
						if inner, isCall := rv[0].(*ssa.Call); isCall && strings.HasPrefix(an.CalleeName(&inner.Call), "slices.ContainsFunc") &&
							an.PathOfIn(inner.Call.Args[0], &call.Call) == msgPath+".ReqFilters" {
							pred = funcValue(inner.Call.Args[1])
						}
						continue
					}
					if !strings.HasPrefix(an.CalleeName(&call.Call), "slices.ContainsFunc") {
						continue
					}
					if an.PathOf(call.Call.Args[0]) == msgPath+".ReqFilters" {
						pred = funcValue(call.Call.Args[1])
					}
				}
				if pred == nil {
					// the quantifier written out: a private helper looping over the filters and
					// answering true as soon as one exceeds the limit
					if ok, d, n := existsLoopBound(fn, r.Block(), msgPath+".ReqFilters"); n >= 0 {
						c.CountPaths(n)
						detail = d
						if !ok {
							okAll = false
							break
						}
						continue
					}
					okAll = false
					detail = "rejection not controlled by ContainsFunc over the message's filters"
					break
				}
				pred, first := throughBound(pred)
				sub := "p:" + pred.Params[first].Name() + ".Limit"
				syms := symbolsFor(pred, sub)
				if len(syms) != 1 || !strings.Contains(syms[0], "recv.") {
					okAll = false
					detail = fmt.Sprintf("per-filter predicate compares %s with %v", sub, syms)
					break
				}
				fr := an.SymFrame(sub, syms[0])
				t, _, n, ok := fr.FuncBoolMeaning(pred, 0, nonNilOnPath(sub), nil)
				c.CountPaths(n)
				// without a limit the predicate must be false
				_, _, n2, _ := fr.FuncBoolMeaning(pred, 0, nil, nil)
				_ = n2
				if !ok || !t.Equal(an.Range(1, an.PosInf)) {
					okAll = false
					detail = "predicate true for *Limit ∈ " + t.Format("L") + ", want (L,+∞)"
					break
				}
				detail = "some filter has *Limit ∈ " + t.Format("L") + " with L = " + syms[0]
			}
			c.Check(okAll, nil, b.name, construct, pos, "rejected iff "+detail, detail)
		case "reject-on-nomatch", "reject-on-match":
			okAll := true
			for _, r := range rejects {
				found := false
				for _, g := range an.Guards(fn, r.Block()) {
					v, pol := g.V, g.True
					if u, ok := v.(*ssa.UnOp); ok && u.Op == token.NOT {
						v, pol = u.X, !pol
					}
					call, ok := v.(*ssa.Call)
					if !ok || !strings.HasSuffix(an.CalleeName(&call.Call), "EventMatcher.Match") {
						continue
					}
					if an.PathOf(call.Call.Args[0]) == msgPath+".Event" && strings.HasPrefix(an.PathOf(call.Call.Value), "recv.") {
						found = pol == (row.want == "reject-on-match")
					}
				}
				if !found {
					okAll = false
				}
			}
			c.Check(okAll, nil, b.name, construct, pos, row.want+": the configured matcher applied to the message's event decides", "the rejection is not controlled by the configured matcher's verdict on the message's event with the polarity "+row.want)
		}
	}
}

// existsLoopBound: block b of fn is guarded by h(filters)=true where h is a
// private helper that walks every element of its slice parameter and returns
// true from inside the loop; the helper's verdict is then "some element's
// *Limit ∈ (L,+∞)" iff its true-paths need that and its false-paths exclude
// it. n<0: no such helper guards b.
func existsLoopBound(fn *ssa.Function, b *ssa.BasicBlock, filtersPath string) (bool, string, int) {
	for _, g := range an.Guards(fn, b) {
		call, ok := g.V.(*ssa.Call)
		if !ok || !g.True {
			continue
		}
		h := an.StaticCallee(&call.Call)
		if !an.PrivateHelper(h) || h.Signature.Results().Len() != 1 || len(h.Params) != len(call.Call.Args) {
			continue
		}
		for i, a := range call.Call.Args {
			if an.PathOf(a) != filtersPath {
				continue
			}
			// the element read inside h's loop
			var elem ssa.Value
			an.Instrs(h, func(in ssa.Instruction) {
				if u, ok := in.(*ssa.UnOp); ok && u.Op == token.MUL {
					if ia, ok := u.X.(*ssa.IndexAddr); ok && an.Unwrap(ia.X) == ssa.Value(h.Params[i]) && an.InLoop(u.Block()) {
						elem = u
					}
				}
			})
			if elem == nil {
				continue
			}
			if all, why := forAllLoopAt(elem, elem.(ssa.Instruction).Block()); !all {
				return false, "the helper deciding the rejection does not visit every filter: " + why, 0
			}
			sub := an.PathOf(elem) + ".Limit"
			syms := symbolsFor(h, sub)
			if len(syms) != 1 || !strings.Contains(syms[0], "recv.") {
				return false, fmt.Sprintf("per-filter test compares %s with %v", sub, syms), 0
			}
			fr := an.SymFrame(sub, syms[0])
			t, f, n, ok := fr.FuncBoolMeaning(h, 0, nonNilOnPath(sub), nil)
			if !ok {
				return false, "too many paths in the helper deciding the rejection", n
			}
			if fps, okp := an.ResultPaths(h, 0, false); okp {
				for _, fp := range fps {
					if an.InLoop(fp.Path[len(fp.Path)-1]) {
						return false, "the helper can answer 'within the limit' before all filters were examined", n
					}
				}
			}
			if !t.Equal(an.Range(1, an.PosInf)) || !f.Intersect(an.Range(1, an.PosInf)).IsEmpty() {
				return false, "helper true for *Limit ∈ " + t.Format("L") + ", false for " + f.Format("L") + ", want true exactly on (L,+∞)", n
			}
			return true, "some filter has *Limit ∈ " + t.Format("L") + " with L = " + syms[0], n
		}
	}
	return false, "", -1
}

// ---------------------------------------------------------------- NIP-11

var nip11Table = []struct{ field, ctor string }{
	{"MaxSubscriptions", "NewMaxSubscriptionsMiddleware"},
	{"MaxFilters", "NewMaxReqFiltersMiddleware"},
	{"MaxLimit", "NewMaxLimitMiddleware"},
	{"MaxEventTags", "NewMaxEventTagsMiddleware"},
	{"MaxContentLength", "NewMaxContentLengthMiddleware"},
	{"CreatedAtLowerLimit", "NewCreatedAtLowerLimitMiddleware"},
	{"CreatedAtUpperLimit", "NewCreatedAtUpperLimitMiddleware"},
}

func runNip11Tab(c *core.Ctx) {
	P := c.P
	build := P.Func(P.Root, "BuildMiddlewareFromNIP11")
	if build == nil {
		c.NoAnchor(nil, "BuildMiddlewareFromNIP11")
		return
	}
	fns := an.WithAnon(build)
	// the stacking may live in a private function / method the builder's closure hands the
	// limitation block to (`nip11.Limitation.wrapHandler(h)`): read there, in the builder's terms
	siteOf := map[*ssa.Function]*ssa.CallCommon{}
	for _, fn := range append([]*ssa.Function(nil), fns...) {
		for _, ci := range calls(fn) {
			g := an.StaticCallee(ci.Common())
			if g == nil || !an.PrivateHelper(g) || siteOf[g] != nil {
				continue
			}
			if _, isCall := ci.(*ssa.Call); !isCall {
				continue
			}
			for _, h := range an.WithAnon(g) {
				dup := false
				for _, f := range fns {
					if f == h {
						dup = true
					}
				}
				if !dup {
					fns = append(fns, h)
					siteOf[h] = ci.Common()
				}
			}
		}
	}
	inBuilder := func(fn *ssa.Function, v ssa.Value) string {
		if site := siteOf[fn]; site != nil {
			return an.PathOfIn(v, site)
		}
		return an.PathOf(v)
	}
	c.CountFuncs(len(fns))
	for _, row := range nip11Table {
		ok, applied := false, false
		var pos token.Pos
		why := "no call of " + row.ctor
		for _, fn := range fns {
			for _, call := range callsNamed(fn, core.ModulePath+"."+row.ctor) {
				pos = call.Pos()
				arg := inBuilder(fn, call.Call.Args[0])
				if !strings.HasSuffix(arg, ".Limitation."+row.field) {
					why = row.ctor + " is configured from " + arg + ", want Limitation." + row.field
					continue
				}
				// guarded by field != 0
				guarded := false
				for _, g := range an.Guards(fn, call.Block()) {
					if b, isBin := g.V.(*ssa.BinOp); isBin && inBuilder(fn, b.X) == arg {
						if k, isK := an.ConstInt(b.Y); isK && k == 0 && (b.Op == token.NEQ) == g.True {
							guarded = true
						}
					}
				}
				if !guarded {
					why = row.ctor + " is applied without the '!= 0' guard on " + row.field
					continue
				}
				ok = true
				// the constructed middleware is applied: its result is called
				if call.Referrers() != nil {
					for _, ref := range *call.Referrers() {
						if dc, isCall := ref.(*ssa.Call); isCall && dc.Call.Value == ssa.Value(call) {
							applied = true
						}
						if ct, isCT := ref.(*ssa.ChangeType); isCT && ct.Referrers() != nil {
							for _, r2 := range *ct.Referrers() {
								if dc, isCall := r2.(*ssa.Call); isCall && dc.Call.Value == ssa.Value(ct) {
									applied = true
								}
							}
						}
					}
				}
				if !applied {
					ok = false
					why = row.ctor + " is constructed but never applied to the handler"
				}
			}
		}
		c.CountSites(1)
		c.Check(ok, nil, fname(c, build), "row["+row.field+"]", P.Pos(pos), "Limitation."+row.field+" != 0 ⇒ wrapped by "+row.ctor+"(Limitation."+row.field+")", why)
	}
	// order: the subscription quota keeps per-session state, so it must be the innermost
	// wrapper — it may only count REQs that every stateless limit has already passed.
	// Wrapped around them it counts a REQ that max_filters / max_limit then reject, and a
	// later, perfectly fine REQ is refused "too many" although no subscription is open.
	for _, fn := range fns {
		for _, call := range callsNamed(fn, core.ModulePath+".NewMaxSubscriptionsMiddleware") {
			var app *ssa.Call
			var refs []ssa.Instruction
			if call.Referrers() != nil {
				refs = append(refs, *call.Referrers()...)
			}
			for _, ref := range refs {
				if ct, isCT := ref.(*ssa.ChangeType); isCT && ct.Referrers() != nil {
					refs = append(refs, *ct.Referrers()...)
				}
				if dc, isCall := ref.(*ssa.Call); isCall && (dc.Call.Value == ssa.Value(call) || an.Unwrap(dc.Call.Value) == ssa.Value(call)) && len(dc.Call.Args) == 1 {
					app = dc
				}
			}
			if app == nil {
				continue
			}
			var inner []string
			seen := map[ssa.Value]bool{}
			var walk func(v ssa.Value)
			walk = func(v ssa.Value) {
				v = an.LoadedValue(an.Unwrap(v))
				if seen[v] {
					return
				}
				seen[v] = true
				switch x := v.(type) {
				case *ssa.Phi:
					for _, e := range x.Edges {
						walk(e)
					}
				case *ssa.Call:
					inner = append(inner, an.PathOf(x.Call.Value)+" at "+P.Pos(x.Pos()))
				}
			}
			walk(app.Call.Args[0])
			c.Check(len(inner) == 0, nil, fname(c, build), "order[MaxSubscriptions innermost]", P.Pos(app.Pos()),
				"the subscription quota wraps the bare handler: it counts only REQs that all other limits let through",
				"the subscription quota is wrapped around other limit middlewares ("+clip(strings.Join(inner, "; "), 160)+"): a REQ they reject still occupies a subscription slot, so the chain refuses REQs the individual middlewares would accept")
		}
	}
}

func runNip11Nil(c *core.Ctx) {
	P := c.P
	build := P.Func(P.Root, "BuildMiddlewareFromNIP11")
	if build == nil {
		c.NoAnchor(nil, "BuildMiddlewareFromNIP11")
		return
	}
	fns := an.WithAnon(build)
	n, bad := 0, 0
	var firstBad token.Pos
	var badPath string
	for _, fn := range fns {
		an.Instrs(fn, func(in ssa.Instruction) {
			fa, ok := in.(*ssa.FieldAddr)
			if !ok {
				return
			}
			// dereference of a pointer loaded from an optional NIP11 field
			if _, isLoad := fa.X.(*ssa.UnOp); !isLoad {
				return
			}
			ptr := an.PathOf(fa.X)
			if !strings.HasSuffix(ptr, ".Limitation") && !strings.HasSuffix(ptr, ".Retention") && !strings.HasSuffix(ptr, ".Fees") {
				return
			}
			n++
			c.CountSites(1)
			if !nonNilGuarded(fn, in.Block(), ptr) {
				bad++
				if firstBad == token.NoPos {
					firstBad, badPath = in.Pos(), ptr
				}
			}
		})
	}
	if n == 0 {
		c.Trivial(nil, fname(c, build), "deref Limitation", P.Pos(build.Pos()), "no dereference of an optional NIP-11 block")
		return
	}
	c.Check(bad == 0, nil, fname(c, build), "deref Limitation", P.Pos(firstBad),
		fmt.Sprintf("all %d dereferences of the optional limitation block are dominated by a nil test", n),
		fmt.Sprintf("%d of %d dereferences of %s are not dominated by a nil test: BuildMiddlewareFromNIP11(&NIP11{}) panics instead of being the identity (Limitation is an optional, omitempty pointer)", bad, n, badPath))
}

// nonNilGuarded: block b of fn is reached only when ptr != nil — by a guard
// in fn, or (for a closure) at the point where the closure is made.
func nonNilGuarded(fn *ssa.Function, b *ssa.BasicBlock, ptr string) bool {
	for _, g := range an.Guards(fn, b) {
		if valueImpliesNonNil(g.V, g.True, ptr, 0) {
			return true
		}
	}
	if parent := fn.Parent(); parent != nil {
		var mk *ssa.MakeClosure
		an.Instrs(parent, func(in ssa.Instruction) {
			if mc, ok := in.(*ssa.MakeClosure); ok && mc.Fn == ssa.Value(fn) {
				mk = mc
			}
		})
		if mk != nil {
			return nonNilGuarded(parent, mk.Block(), ptr)
		}
	}
	return false
}

// valueImpliesNonNil: the boolean v having the value val implies ptr != nil.
// v is a nil test of ptr, a negation, or a flag (local or captured, stored
// once) holding a short-circuit combination of such tests: `v == val` rules
// out every phi edge carrying the constant !val, and each remaining edge must
// imply ptr != nil by its own value or by the guards of the block it leaves.
func valueImpliesNonNil(v ssa.Value, val bool, ptr string, depth int) bool {
	if depth > 6 {
		return false
	}
	if is, nonNilWhenTrue := nilTest(v, ptr); is {
		return val == nonNilWhenTrue
	}
	switch x := v.(type) {
	case *ssa.UnOp:
		if x.Op == token.NOT {
			return valueImpliesNonNil(x.X, !val, ptr, depth+1)
		}
		if x.Op == token.MUL {
			if lv := an.LoadedValue(x); lv != ssa.Value(x) {
				return valueImpliesNonNil(lv, val, ptr, depth+1)
			}
		}
	case *ssa.Phi:
		if x.Parent() == nil {
			return false
		}
		n := 0
		for i, e := range x.Edges {
			if k, ok := e.(*ssa.Const); ok && k.Value != nil && k.Value.Kind() == constant.Bool {
				if constant.BoolVal(k.Value) != val {
					continue // this edge cannot produce val
				}
				// constant val: the edge itself says nothing; its guards must
			}
			n++
			pred := x.Block().Preds[i]
			ok := valueImpliesNonNil(e, val, ptr, depth+1)
			if _, isConst := e.(*ssa.Const); isConst {
				ok = false
			}
			if !ok {
				for _, g := range an.Guards(x.Parent(), pred) {
					if valueImpliesNonNil(g.V, g.True, ptr, depth+1) {
						ok = true
						break
					}
				}
			}
			if !ok {
				return false
			}
		}
		return n > 0
	}
	return false
}

// onlyWithoutCtxState: every way to block b of fn passes a test that found the per-connection
// state absent from the context — the comma-ok assertion of `ctx.Value(key)` failed, or the
// asserted value (or a field of it) is nil; the test may sit in a private helper that hands the
// state out (`v, err := m.session(ctx); if err != nil`).
func onlyWithoutCtxState(fn *ssa.Function, b *ssa.BasicBlock) bool {
	alts, ok := an.ReachCondsDeep(fn, b)
	if !ok || len(alts) == 0 {
		return false
	}
	for _, cs := range alts {
		found := false
		for _, cd := range cs {
			if ctxStateAbsent(cd) {
				found = true
			}
		}
		if !found {
			return false
		}
	}
	return true
}

// errorOnlyNoState: block b of fn (a return with a non-nil error) is reached only behind
// `err != nil` for the error of a module function whose own failing ways out are all of the
// "no per-connection state" kind (directly, or through such a function again): the failure is
// handed up, wrapped or not, from the one place that found the session missing.
func errorOnlyNoState(fn *ssa.Function, b *ssa.BasicBlock, depth int) bool {
	if depth > 3 {
		return false
	}
	alts, ok := an.ReachConds(fn, b)
	if !ok || len(alts) == 0 {
		return false
	}
	for _, cs := range alts {
		if !condsNoState(cs, depth) {
			return false
		}
	}
	return true
}

// condsNoState: among the conditions of one way through a function, one says "no per-connection
// state": the direct test, or `err != nil` for a module function that fails only that way.
func condsNoState(cs []an.Cond, depth int) bool {
	for _, cd := range cs {
		if ctxStateAbsent(cd) {
			return true
		}
		cd = an.NormCond(cd)
		bo, isB := cd.V.(*ssa.BinOp)
		if !isB || !an.IsNilConst(bo.Y) || (bo.Op != token.EQL && bo.Op != token.NEQ) || (bo.Op == token.NEQ) != cd.True {
			continue
		}
		var call *ssa.Call
		idx := 0
		switch x := bo.X.(type) {
		case *ssa.Extract:
			call, _ = x.Tuple.(*ssa.Call)
			idx = x.Index
		case *ssa.Call:
			call = x
		}
		if call == nil {
			continue
		}
		g := an.StaticCallee(&call.Call)
		if g == nil || !an.InModuleFn(g) || len(g.Blocks) == 0 || depth > 3 {
			continue
		}
		if failsOnlyNoState(g, idx, depth+1) {
			return true
		}
	}
	return false
}

// failsOnlyNoState: every feasible way out of g on which its error result #idx may be non-nil
// carries a "no per-connection state" condition (and there is such a way).
func failsOnlyNoState(g *ssa.Function, idx, depth int) bool {
	any := false
	for _, rb := range an.ReturnBlocks(g) {
		rvs := an.ReturnValues(an.LastInstr(rb).(*ssa.Return))
		if idx >= len(rvs) {
			return false
		}
		cps, ok := an.ReachCondPaths(g, rb)
		if !ok {
			return false
		}
		for _, cp := range cps {
			if an.IsNilConst(resolveRet(rvs[idx], cp.Path)) {
				continue
			}
			any = true
			if !condsNoState(cp.Conds, depth) {
				return false
			}
		}
	}
	return any
}

func ctxValueAssert(v ssa.Value) *ssa.TypeAssert {
	ex, ok := v.(*ssa.Extract)
	if !ok {
		return nil
	}
	ta, ok := ex.Tuple.(*ssa.TypeAssert)
	if !ok || !ta.CommaOk {
		return nil
	}
	call, ok := ta.X.(*ssa.Call)
	if !ok || !call.Call.IsInvoke() || call.Call.Method.Name() != "Value" || !strings.HasSuffix(call.Call.Value.Type().String(), "context.Context") {
		return nil
	}
	return ta
}

func ctxStateAbsent(cd an.Cond) bool {
	cd = an.NormCond(cd)
	if ex, ok := cd.V.(*ssa.Extract); ok && ex.Index == 1 && ctxValueAssert(ex) != nil {
		return !cd.True
	}
	// the state kept in a table of the base under an id the context carries (`subs, ok := c.m[getRequestID(ctx)]`)
	if ex, ok := cd.V.(*ssa.Extract); ok && ex.Index == 1 && !cd.True {
		if lk, isLk := ex.Tuple.(*ssa.Lookup); isLk && lk.CommaOk && strings.HasPrefix(an.PathOf(lk.X), "recv.") {
			if _, isMap := lk.X.Type().Underlying().(*types.Map); isMap && strings.Contains(an.PathOf(lk.Index), "p:ctx") {
				return true
			}
		}
	}
	b, ok := cd.V.(*ssa.BinOp)
	if !ok || (b.Op != token.EQL && b.Op != token.NEQ) || !an.IsNilConst(b.Y) || (b.Op == token.EQL) != cd.True {
		return false
	}
	v := an.LoadedValue(b.X)
	for i := 0; i < 3; i++ {
		if ex, ok := v.(*ssa.Extract); ok && ex.Index == 0 && ctxValueAssert(ex) != nil {
			return true
		}
		u, ok := v.(*ssa.UnOp)
		if !ok {
			return false
		}
		fa, ok := u.X.(*ssa.FieldAddr)
		if !ok {
			return false
		}
		v = an.LoadedValue(fa.X)
	}
	return false
}
