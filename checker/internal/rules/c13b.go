package rules

import (
	"fmt"
	"go/token"
	"go/types"
	"regexp"
	"strings"

	"golang.org/x/tools/go/ssa"

	"mocverif/internal/an"
	"mocverif/internal/core"
)

func init() {
	reg(&core.RuleInfo{Name: "GO-CANCEL", Props: []string{"C13"}, Engine: "CHAN", Floor: 6, Confirmed: 9,
		Doc: "goroutine literals started where a cancel is owned defer that cancel", Run: runGoCancel})
	reg(&core.RuleInfo{Name: "LOOP-EXIT", Props: []string{"C13"}, Engine: "CFG", Floor: 10, Confirmed: 16,
		Doc: "unbounded loops in session code can leave on ctx.Done or on the error of a context-bound call", Run: runLoopExit})
	reg(&core.RuleInfo{Name: "CTX-PASS", Props: []string{"C13"}, Engine: "PROV", Floor: 20, Confirmed: 40,
		Doc: "context-taking calls receive a context derived from the caller's", Run: runCtxPass})
	reg(&core.RuleInfo{Name: "JOIN-ORDER", Props: []string{"C13"}, Engine: "CFG", Floor: 2, Confirmed: 2,
		Doc: "a deferred join on child goroutines is preceded (in run order) by a cancel", Run: runJoinOrder})
	reg(&core.RuleInfo{Name: "RECV-OK", Props: []string{"C13"}, Engine: "CFG", Floor: 4, Confirmed: 4,
		Doc: "receives from the inbound ClientMsg channel are comma-ok and return on close", Run: runRecvOK})
	reg(&core.RuleInfo{Name: "CHILD-CLOSE", Props: []string{"C13"}, Engine: "CHAN", Floor: 3, Confirmed: 3,
		Doc: "inbound channels handed to inner handlers are closed by a defer in their sender goroutine", Run: runChildClose})
	reg(&core.RuleInfo{Name: "START-END", Props: []string{"C13", "C19"}, Engine: "CFG", Floor: 2, Confirmed: 2,
		Doc: "ServeNostrEnd is deferred on the success edge of ServeNostrStart", Run: runStartEnd})
	reg(&core.RuleInfo{Name: "UNSUB-ALL", Props: []string{"C07", "C13"}, Engine: "CFG", Floor: 1, Confirmed: 1,
		Doc: "UnsubscribeAll(session id) is deferred before the router's loop", Run: runUnsubAll})
}

// cancelOf: v resolves to result #1 of a context.With* call.
func cancelOf(v ssa.Value) *ssa.Call {
	cv := an.LoadedValue(resolveFree(v))
	e, ok := cv.(*ssa.Extract)
	if !ok || e.Index != 1 {
		return nil
	}
	w, ok := e.Tuple.(*ssa.Call)
	if !ok || !strings.HasPrefix(an.CalleeName(&w.Call), "context.With") {
		return nil
	}
	return w
}

// withCalls: context.With* calls in fn.
func withCalls(fn *ssa.Function) []*ssa.Call {
	var out []*ssa.Call
	an.Instrs(fn, func(in ssa.Instruction) {
		if call, ok := in.(*ssa.Call); ok && strings.HasPrefix(an.CalleeName(&call.Call), "context.WithCancel") {
			out = append(out, call)
		}
	})
	return out
}

func runGoCancel(c *core.Ctx) {
	P := c.P
	for _, fn := range libFuncs(c) {
		ws := withCalls(fn)
		if len(ws) == 0 {
			continue
		}
		c.CountFuncs(1)
		n := 0
		an.Instrs(fn, func(in ssa.Instruction) {
			g, ok := in.(*ssa.Go)
			if !ok {
				return
			}
			mc, ok := g.Call.Value.(*ssa.MakeClosure)
			if !ok {
				return
			}
			n++
			c.CountSites(1)
			cl := mc.Fn.(*ssa.Function)
			okDefer := false
			an.Instrs(cl, func(in2 ssa.Instruction) {
				if d, ok := in2.(*ssa.Defer); ok {
					if w := cancelOf(d.Call.Value); w != nil {
						for _, x := range ws {
							if x == w {
								okDefer = true
							}
						}
					}
				}
			})
			// … or it can only leave through a `<-ctx.Done()` case of that very context: it ends
			// because the session was cancelled, a cancel of its own would be a no-op
			if !okDefer && exitsOnlyOnDone(cl, ws) {
				okDefer = true
			}
			c.Check(okDefer, nil, fname(c, fn), fmt.Sprintf("go#%d/defer-cancel", n), P.Pos(g.Pos()),
				"the goroutine defers the cancel of the session context (or returns only once that context is done): its exit ends its siblings",
				"a goroutine started here does not defer cancel(): when it exits (peer gone, inbound closed) its sibling goroutines and the inner handler keep running")
		})
	}
}

// exitsOnlyOnDone: every return of the goroutine body is dominated by the case block of a
// `<-ctx.Done()` select state whose context is the result of one of the enclosing function's
// context.With… calls (ws), and nothing in the body can panic its way out through a call of cancel.
func exitsOnlyOnDone(cl *ssa.Function, ws []*ssa.Call) bool {
	var doneBlocks []*ssa.BasicBlock
	for _, b := range cl.Blocks {
		for _, in := range b.Instrs {
			sel, ok := in.(*ssa.Select)
			if !ok {
				continue
			}
			for i, st := range sel.States {
				if st.Dir != types.RecvOnly {
					continue
				}
				ctxv, isDone := an.IsCtxDone(st.Chan)
				if !isDone {
					continue
				}
				// the context is (a capture of) result #0 of a With… call of the parent
				root := resolveFree(ctxv)
				if u, isU := root.(*ssa.UnOp); isU && u.Op == token.MUL {
					if a := an.ResolveAlloc(u.X); a != nil {
						if sts := an.StoresTo(a); len(sts) >= 1 {
							root = sts[len(sts)-1].Val
						}
					}
				}
				ex, isEx := root.(*ssa.Extract)
				if !isEx || ex.Index != 0 {
					continue
				}
				mine := false
				for _, w := range ws {
					if ex.Tuple == ssa.Value(w) {
						mine = true
					}
				}
				if !mine {
					continue
				}
				if cb := an.SelectCaseBlock(sel, i); cb != nil {
					doneBlocks = append(doneBlocks, cb)
				}
			}
		}
	}
	if len(doneBlocks) == 0 {
		return false
	}
	rbs := an.ReturnBlocks(cl)
	if len(rbs) == 0 {
		return false
	}
	for _, rb := range rbs {
		ok := false
		for _, db := range doneBlocks {
			if db == rb || db.Dominates(rb) {
				ok = true
			}
		}
		if !ok {
			return false
		}
	}
	return true
}

func runLoopExit(c *core.Ctx) {
	P := c.P
	for _, fn := range libFuncs(c) {
		n := 0
		for _, h := range fn.Blocks {
			if len(an.Latches(h)) == 0 {
				continue
			}
			// bounded loops: header ends in a test (range / counted / comma-ok)
			if _, isIf := an.LastInstr(h).(*ssa.If); isIf {
				bounded := true
				// a "for {}" whose first statement is a select lowers to a header ending in If as
				// well (idx == 0); those have a Select in the header
				for _, in := range h.Instrs {
					if _, isSel := in.(*ssa.Select); isSel {
						bounded = false
					}
				}
				if bounded {
					continue
				}
			}
			loop := an.LoopBlocks(h)
			n++
			c.CountSites(1)
			construct := fmt.Sprintf("loop#%d", n)
			pos := P.Pos(firstPos(h))
			// (a) a select with Done case leaving the loop
			okSel := false
			for b := range loop {
				for _, in := range b.Instrs {
					sel, ok := in.(*ssa.Select)
					if !ok || !sel.Blocking {
						continue
					}
					if di := an.SelectDoneState(sel); di >= 0 {
						if cb := an.SelectCaseBlock(sel, di); cb != nil && (!loop[cb] || !an.Reachable(cb, h, nil, nil)) {
							okSel = true
						}
					}
				}
			}
			if okSel {
				c.OK(nil, fname(c, fn), construct, pos, "unbounded loop with a <-ctx.Done() case that leaves it")
				continue
			}
			// (b) exit on the error of a call that takes the function's context
			okErr := false
			for b := range loop {
				iff, ok := an.LastInstr(b).(*ssa.If)
				if !ok {
					continue
				}
				exits := false
				for _, s := range b.Succs {
					if !loop[s] {
						exits = true
					}
				}
				if !exits {
					continue
				}
				if bin, ok := iff.Cond.(*ssa.BinOp); ok && bin.Op == token.NEQ && an.IsNilConst(bin.Y) {
					if call := an.CallOf(bin.X); call != nil {
						for _, a := range call.Call.Args {
							if isContext(a.Type()) && !strings.Contains(an.PathOf(a), "context.Background") {
								okErr = true
							}
						}
					}
				}
			}
			c.Check(okErr, nil, fname(c, fn), construct, pos, "unbounded loop left on the error of a call bound to the session context (see CTX-PASS)",
				"unbounded loop with neither a <-ctx.Done() case that leaves it nor an exit on the error of a context-bound call: the goroutine survives cancellation")
		}
	}
}

func firstPos(b *ssa.BasicBlock) token.Pos {
	for _, in := range b.Instrs {
		if in.Pos().IsValid() {
			return in.Pos()
		}
	}
	for _, s := range b.Succs {
		for _, in := range s.Instrs {
			if in.Pos().IsValid() {
				return in.Pos()
			}
		}
	}
	return b.Parent().Pos()
}

func isContext(t types.Type) bool {
	return types.TypeString(t, nil) == "context.Context"
}

// ctxExceptions: frozen, one reason each (DESIGN.md §5 C13).
var ctxExceptions = map[string]string{
	"(*mocrelay.subscriber).SendIfMatch→trySendCtx": "non-blocking send (select with default): the context is irrelevant; covered by PUB-NB",
}

var reBoundedDetached = regexp.MustCompile(`^call:context\.WithTimeout\(call:context\.(Background|TODO)\(\),const:\d+\)#0$`)

func runCtxPass(c *core.Ctx) {
	P := c.P
	counter := map[string]int{}
	for _, fn := range libFuncs(c) {
		c.CountFuncs(1)
		for _, ci := range calls(fn) {
			com := ci.Common()
			var params *types.Tuple
			if com.IsInvoke() {
				params = com.Method.Type().(*types.Signature).Params()
			} else {
				params = com.Signature().Params()
			}
			if params.Len() == 0 || !isContext(params.At(0).Type()) {
				continue
			}
			args := com.Args
			if !com.IsInvoke() && com.Signature().Recv() != nil {
				args = args[1:]
			}
			if len(args) == 0 {
				continue
			}
			c.CountSites(1)
			name := an.CalleeName(com)
			short := name[strings.LastIndex(name, ".")+1:]
			short = strings.TrimSuffix(short, ")")
			k := "ctx-arg→" + short
			counter[fname(c, fn)+k]++
			if n := counter[fname(c, fn)+k]; n > 1 {
				k += fmt.Sprintf("#%d", n)
			}
			ap := an.PathOf(args[0])
			root := fn
			for root.Parent() != nil {
				root = root.Parent()
			}
			detached := strings.Contains(ap, "call:context.Background()") || strings.Contains(ap, "call:context.TODO()")
			if !detached {
				c.OK(nil, fname(c, fn), k, P.Pos(ci.Pos()), "context ← "+clip(ap, 90))
				continue
			}
			// detached but bounded: context.WithTimeout(context.Background(), <constant>) ends by
			// itself — the one use is the final flush of a batch after the session's context ended
			if reBoundedDetached.MatchString(ap) || (name == "context.WithTimeout" && len(args) == 2 && func() bool { _, isK := an.ConstInt(args[1]); return isK }()) {
				c.OK(nil, fname(c, fn), k, P.Pos(ci.Pos()), "detached from the session but bounded by a constant timeout: "+clip(ap, 70))
				continue
			}
			exKey := fname(c, root) + "→" + short
			if why, ok := ctxExceptions[exKey]; ok {
				c.OK(nil, fname(c, fn), k, P.Pos(ci.Pos()), "frozen exception: "+why)
				continue
			}
			c.Bad(nil, fname(c, fn), k, P.Pos(ci.Pos()), short+" is called with a context detached from the session ("+clip(ap, 80)+"): cancellation does not reach it, so it can block after the peer is gone")
		}
	}
}

func clip(s string, n int) string {
	r := []rune(s)
	if len(r) > n {
		return string(r[:n]) + "…"
	}
	return s
}

func runJoinOrder(c *core.Ctx) {
	P := c.P
	n := 0
	for _, fn := range libFuncs(c) {
		an.Instrs(fn, func(in ssa.Instruction) {
			d, ok := in.(*ssa.Defer)
			if !ok {
				return
			}
			mc, ok := d.Call.Value.(*ssa.MakeClosure)
			if !ok {
				return
			}
			cl := mc.Fn.(*ssa.Function)
			joins := false
			var joinOps []ssa.Instruction
			for _, op := range an.ChanOps(cl) {
				if op.Kind == an.OpRecv {
					if okj, _ := joinRecv(cl, op); okj {
						joins = true
						joinOps = append(joinOps, op.Instr)
					}
				}
			}
			if !joins {
				return
			}
			n++
			c.CountSites(1)
			// a defer of a cancel registered later, dominating every return reachable from here
			okLater := false
			// … or the cancel is called in the deferred closure itself, before every join in it
			// (`defer func() { cancel(); <-done }()`)
			{
				var cancels []ssa.Instruction
				an.Instrs(cl, func(in3 ssa.Instruction) {
					if call, ok := in3.(*ssa.Call); ok && cancelOf(call.Call.Value) != nil {
						cancels = append(cancels, call)
					}
				})
				inside := len(cancels) > 0
				for _, j := range joinOps {
					dominated := false
					for _, cc := range cancels {
						if an.InstrDominates(cc, j) {
							dominated = true
						}
					}
					if !dominated {
						inside = false
					}
				}
				if inside {
					okLater = true
				}
			}
			// … or the goroutine is told to finish by closing the channel it waits on: before every
			// join the closure calls a method that closes a channel field of its receiver, and the
			// receive from that field (in a method of the same type) leaves its loop when the channel
			// is closed (`defer func() { replies.Close(); <-written }()`)
			if !okLater {
				if how := stopByClose(c, cl, joinOps); how != "" {
					okLater = true
				}
			}
			an.Instrs(fn, func(in2 ssa.Instruction) {
				d2, ok := in2.(*ssa.Defer)
				if !ok || d2 == d || cancelOf(d2.Call.Value) == nil || !before(d, d2) {
					return
				}
				all := true
				for _, rb := range an.ReturnBlocks(fn) {
					if an.Reachable(d.Block(), rb, nil, nil) && !(d2.Block() == rb || d2.Block().Dominates(rb)) {
						all = false
					}
				}
				if all {
					okLater = true
				}
			})
			c.Check(okLater, nil, fname(c, fn), "deferred-join", P.Pos(d.Pos()),
				"a defer cancel() registered after the join runs before it: the joined goroutines are cancelled before being waited for",
				"no cancel() is deferred after the deferred join: when the inner handler returns on its own the join waits for goroutines nobody cancels (deadlock)")
		})
	}
	if n == 0 {
		c.NoAnchor(nil, "deferred joins (<-errs in a deferred closure)")
	}
}

// recvFieldOf: v is a load of field #k of fn's receiver; returns k (or -1)
func recvFieldOf(fn *ssa.Function, v ssa.Value) int {
	if ct, ok := v.(*ssa.ChangeType); ok {
		v = ct.X
	}
	u, ok := v.(*ssa.UnOp)
	if !ok || u.Op != token.MUL {
		return -1
	}
	fa, ok := u.X.(*ssa.FieldAddr)
	if !ok || fn.Signature.Recv() == nil || len(fn.Params) == 0 || fa.X != ssa.Value(fn.Params[0]) {
		return -1
	}
	return fa.Field
}

// closedEdgeLeaves: the comma-ok test of receive state i of sel has a closed edge that does not
// come back to the select
func closedEdgeLeaves(sel *ssa.Select, i int) bool {
	cb := an.SelectCaseBlock(sel, i)
	if cb == nil {
		return false
	}
	// recvOk of state i is extract #1; received values follow
	good := false
	seen := map[*ssa.BasicBlock]bool{}
	var walk func(b *ssa.BasicBlock)
	walk = func(b *ssa.BasicBlock) {
		if seen[b] || b == sel.Block() {
			return
		}
		seen[b] = true
		if iff, ok := an.LastInstr(b).(*ssa.If); ok {
			if e, ok := iff.Cond.(*ssa.Extract); ok && e.Tuple == ssa.Value(sel) && e.Index == 1 {
				if !an.Reachable(b.Succs[1], sel.Block(), nil, nil) {
					good = true
				}
				return
			}
		}
		for _, s := range b.Succs {
			walk(s)
		}
	}
	walk(cb)
	if good {
		return true
	}
	// `case _, ok := <-ch: …work…; if !ok { return }`: the test comes after the work
	for _, r := range *sel.Referrers() {
		e, ok := r.(*ssa.Extract)
		if !ok || e.Index != 1 || e.Referrers() == nil {
			continue
		}
		for _, u := range *e.Referrers() {
			iff, ok := u.(*ssa.If)
			if !ok {
				continue
			}
			if an.Reachable(cb, iff.Block(), nil, map[*ssa.BasicBlock]bool{sel.Block(): true}) && !an.Reachable(iff.Block().Succs[1], sel.Block(), nil, nil) {
				return true
			}
		}
	}
	return false
}

// stopByClose: every join in cl is dominated by a call of a method that closes a channel field
// of its receiver whose receivers stop on close. Returns a description, "" if not.
func stopByClose(c *core.Ctx, cl *ssa.Function, joinOps []ssa.Instruction) string {
	P := c.P
	how := ""
	var stops []ssa.Instruction
	for _, ci := range calls(cl) {
		call, ok := ci.(*ssa.Call)
		if !ok {
			continue
		}
		sc := an.StaticCallee(&call.Call)
		if sc == nil || !P.InModule(sc) || sc.Signature.Recv() == nil || len(sc.Blocks) == 0 {
			continue
		}
		field := -1
		for _, op := range an.ChanOps(sc) {
			if op.Kind == an.OpClose {
				if k := recvFieldOf(sc, op.Chan); k >= 0 {
					field = k
				}
			}
		}
		if field < 0 {
			continue
		}
		t := recvTypeName(sc)
		stopsOnClose := false
		for _, m := range P.ModFuncs {
			if m.Parent() != nil || recvTypeName(m) != t || len(m.Blocks) == 0 {
				continue
			}
			for _, op := range an.ChanOps(m) {
				switch op.Kind {
				case an.OpRange:
					if recvFieldOf(m, op.Chan) == field {
						stopsOnClose = true
					}
				case an.OpSelect:
					for i, st := range op.Select.States {
						if st.Dir == types.RecvOnly && recvFieldOf(m, st.Chan) == field && closedEdgeLeaves(op.Select, i) {
							stopsOnClose = true
						}
					}
				}
			}
		}
		if stopsOnClose {
			stops = append(stops, call)
			how = fname(c, sc) + " closes the channel its receivers stop on"
		}
	}
	if len(stops) == 0 {
		return ""
	}
	for _, j := range joinOps {
		dominated := false
		for _, s := range stops {
			if an.InstrDominates(s, j) {
				dominated = true
			}
		}
		if !dominated {
			return ""
		}
	}
	return how
}

func isClientMsgChan(t types.Type) bool {
	ch, ok := t.Underlying().(*types.Chan)
	if !ok {
		return false
	}
	n, ok := ch.Elem().(*types.Named)
	return ok && n.Obj().Name() == "ClientMsg"
}

func runRecvOK(c *core.Ctx) {
	P := c.P
	for _, fn := range libFuncs(c) {
		an.Instrs(fn, func(in ssa.Instruction) {
			sel, ok := in.(*ssa.Select)
			if !ok {
				return
			}
			for i, st := range sel.States {
				if st.Dir != types.RecvOnly || !isClientMsgChan(st.Chan.Type()) {
					continue
				}
				if _, isParam := resolveFree(st.Chan).(*ssa.Parameter); !isParam {
					continue
				}
				c.CountSites(1)
				cb := an.SelectCaseBlock(sel, i)
				good := false
				if cb != nil {
					// find "if recvOk" reachable from the case block before re-entering the select
					seen := map[*ssa.BasicBlock]bool{}
					var walk func(b *ssa.BasicBlock)
					walk = func(b *ssa.BasicBlock) {
						if seen[b] || b == sel.Block() {
							return
						}
						seen[b] = true
						if iff, ok := an.LastInstr(b).(*ssa.If); ok {
							if e, ok := iff.Cond.(*ssa.Extract); ok && e.Tuple == ssa.Value(sel) && e.Index == 1 {
								// false edge must not come back to the select
								if !an.Reachable(b.Succs[1], sel.Block(), nil, nil) {
									good = true
								}
								return
							}
						}
						for _, s := range b.Succs {
							walk(s)
						}
					}
					walk(cb)
				}
				c.Check(good, nil, fname(c, fn), "recv(inbound)/closed-edge", P.Pos(sel.Pos()),
					"the receive from the inbound channel is comma-ok and its closed edge leaves the loop",
					"the receive from the inbound ClientMsg channel does not test 'ok' (or keeps looping on close): a closed inbound channel yields nil messages forever / the session never ends")
			}
		})
	}
}

func runChildClose(c *core.Ctx) {
	P := c.P
	makes, closes := 0, 0
	var notes []string
	for _, fn := range libFuncs(c) {
		an.Instrs(fn, func(in ssa.Instruction) {
			if mc, ok := in.(*ssa.MakeChan); ok && isClientMsgChan(mc.Type()) {
				makes++
			}
		})
		for _, op := range an.ChanOps(fn) {
			if op.Kind != an.OpClose || !isClientMsgChan(op.Chan.Type()) {
				continue
			}
			if mc := an.MakeChanOf(op.Chan); mc != nil {
				if k, ok := an.ConstInt(mc.Size); ok && k >= 1 {
					continue // a fully buffered local reply channel, not a handler's inbound channel
				}
			}
			c.CountSites(1)
			// deferred directly inside a goroutine literal…
			inGo := func(f *ssa.Function) bool {
				p := f.Parent()
				if p == nil {
					return false
				}
				started := false
				an.Instrs(p, func(in ssa.Instruction) {
					if g, ok := in.(*ssa.Go); ok {
						if cl, ok := g.Call.Value.(*ssa.MakeClosure); ok && cl.Fn == ssa.Value(f) {
							started = true
						}
					}
				})
				return started
			}
			good := false
			if op.Deferred && inGo(fn) {
				good = true
			}
			// …or inside a helper that is itself deferred in a goroutine literal
			if !good && !op.Deferred {
				for _, caller := range libFuncs(c) {
					an.Instrs(caller, func(in ssa.Instruction) {
						if d, ok := in.(*ssa.Defer); ok {
							if sc := an.StaticCallee(&d.Call); sc != nil && sameFunc(sc, fn) && inGo(caller) {
								good = true
							}
						}
					})
				}
			}
			closes++
			if isBufHelper(fn) {
				closes--
				continue // newClosedBufCh closes its own fully buffered channel
			}
			notes = append(notes, P.Pos(op.Instr.Pos()))
			c.Check(good, nil, fname(c, fn), "close(chan ClientMsg)", P.Pos(op.Instr.Pos()),
				"the inner handler's inbound channel is closed by a defer of its sender goroutine", "the inbound channel of an inner handler is not closed by a deferred close in its sender goroutine")
		}
	}
	c.Check(closes >= 3, nil, "-", "every-child-inbound-closed", "-", fmt.Sprintf("%d make sites of chan ClientMsg, %d deferred closers (%s)", makes, closes, strings.Join(notes, ", ")),
		fmt.Sprintf("%d make sites of chan ClientMsg but only %d closers: an inner handler's inbound channel is never closed, so the handler cannot observe the end of input", makes, closes))
}

func isBufHelper(fn *ssa.Function) bool {
	return strings.Contains(an.ShortName(fn), "newClosedBufCh") || strings.Contains(an.ShortName(fn), "newBufCh")
}

func runStartEnd(c *core.Ctx) {
	P := c.P
	n := 0
	isStartInvoke := func(call *ssa.Call) bool {
		return call.Call.IsInvoke() && call.Call.Method.Name() == "ServeNostrStart"
	}
	// endWrapper: a private function that does nothing but end the session on the base it is
	// handed (`simpleMiddlewareEnd(ctx, base)`, possibly with a deferred recover): the index of that
	// parameter, or -1
	endWrapper := func(g *ssa.Function) int {
		if !an.PrivateHelper(g) {
			return -1
		}
		idx := -1
		an.Instrs(g, func(in ssa.Instruction) {
			call, ok := in.(*ssa.Call)
			if !ok || !call.Call.IsInvoke() || call.Call.Method.Name() != "ServeNostrEnd" {
				return
			}
			par, isPar := call.Call.Value.(*ssa.Parameter)
			if !isPar {
				return
			}
			for _, rb := range an.ReturnBlocks(g) {
				if !(call.Block() == rb || call.Block().Dominates(rb)) {
					return
				}
			}
			for i, q := range g.Params {
				if q == par {
					idx = i
				}
			}
		})
		return idx
	}
	// isEnd: the call ends the session on the base at basePath (read in the caller's terms with pathOf)
	isEnd := func(call *ssa.CallCommon, basePath string, pathOf func(ssa.Value) string) bool {
		if call.IsInvoke() {
			return call.Method.Name() == "ServeNostrEnd" && pathOf(call.Value) == basePath
		}
		if g := an.StaticCallee(call); g != nil {
			if i := endWrapper(g); i >= 0 && i < len(call.Args) {
				return pathOf(call.Args[i]) == basePath
			}
		}
		return false
	}
	// startWrapper: a private function that starts the session on the base it is handed and returns
	// (ctx, err) without deferring the End itself (`simpleMiddlewareStart(ctx, base)`): the index of that
	// parameter, or -1
	startIn := func(fn *ssa.Function) *ssa.Call {
		var start *ssa.Call
		an.Instrs(fn, func(in ssa.Instruction) {
			if call, ok := in.(*ssa.Call); ok && isStartInvoke(call) {
				start = call
			}
		})
		return start
	}
	hasDeferredEnd := func(fn *ssa.Function, basePath string) *ssa.Defer {
		var dEnd *ssa.Defer
		an.Instrs(fn, func(in ssa.Instruction) {
			d, ok := in.(*ssa.Defer)
			if !ok {
				return
			}
			mc, ok := d.Call.Value.(*ssa.MakeClosure)
			if !ok {
				return
			}
			an.Instrs(mc.Fn.(*ssa.Function), func(in2 ssa.Instruction) {
				if call, ok := in2.(*ssa.Call); ok && isEnd(&call.Call, basePath, an.PathOf) {
					dEnd = d
				}
			})
		})
		return dEnd
	}
	startWrapper := func(g *ssa.Function) int {
		if !an.PrivateHelper(g) || g.Signature.Results().Len() != 2 {
			return -1
		}
		st := startIn(g)
		if st == nil {
			return -1
		}
		par, isPar := st.Call.Value.(*ssa.Parameter)
		if !isPar || hasDeferredEnd(g, an.PathOf(par)) != nil {
			return -1
		}
		for i, q := range g.Params {
			if q == par {
				return i
			}
		}
		return -1
	}
	props := []string{"C13", "C19"}
	for _, fn := range libFuncs(c) {
		// ---- a start wrapper: once the base has started, every way out either hands the started
		// session to the caller (ctx, nil) or ends it
		if wi := startWrapper(fn); wi >= 0 {
			st := startIn(fn)
			basePath := an.PathOf(st.Call.Value)
			n++
			c.CountFuncs(1)
			var bad []string
			np := 0
			for _, rb := range an.ReturnBlocks(fn) {
				paths, ok := an.PathsTo(fn, rb, 2048)
				if !ok {
					c.Unknown(props, fname(c, fn), "start-wrapper", P.Pos(fn.Pos()), "too many paths")
					return
				}
				ret := an.LastInstr(rb).(*ssa.Return)
				for _, p := range paths {
					if !an.Feasible(p) || !p.Contains(st.Block()) {
						continue
					}
					np++
					started := false // the path took the start's `err == nil` edge
					for _, cd := range p.Conds() {
						cd = an.NormCond(cd)
						if b, ok := cd.V.(*ssa.BinOp); ok && an.IsNilConst(b.Y) && (b.Op == token.EQL) == cd.True {
							if ex, ok := an.LoadedValue(b.X).(*ssa.Extract); ok && ex.Tuple == ssa.Value(st) && ex.Index == 1 {
								started = true
							}
							if resolveRet(b.X, p) != b.X {
								if ex, ok := resolveRet(b.X, p).(*ssa.Extract); ok && ex.Tuple == ssa.Value(st) && ex.Index == 1 {
									started = true
								}
							}
						}
					}
					if !started {
						continue
					}
					ended := false
					for _, b := range p {
						for _, in := range b.Instrs {
							if call, ok := in.(*ssa.Call); ok && isEnd(&call.Call, basePath, an.PathOf) {
								ended = true
							}
						}
					}
					rvs := an.ReturnValues(ret)
					hands := len(rvs) == 2 && an.IsNilConst(resolveRet(rvs[1], p))
					if !ended && !hands {
						bad = append(bad, "a return at "+P.Pos(ret.Pos())+" reports an error after ServeNostrStart succeeded without ending the session")
					}
					if ended && hands {
						bad = append(bad, "a return at "+P.Pos(ret.Pos())+" hands out a session it has already ended")
					}
				}
			}
			c.CountPaths(np)
			c.Check(len(bad) == 0 && np > 0, props, fname(c, fn), "start-wrapper", P.Pos(st.Pos()),
				"once ServeNostrStart has succeeded, every way out either hands the started session to the caller (nil error) or calls ServeNostrEnd on the same base",
				strings.Join(bad, "; ")+": the caller, seeing an error, does not defer ServeNostrEnd, so per-session state (gauges, subscription sets) is never released")
			continue
		}
		// ---- the function that runs the session: Start (direct or through a start wrapper), then the
		// deferred End
		var start *ssa.Call
		basePath := ""
		an.Instrs(fn, func(in ssa.Instruction) {
			call, ok := in.(*ssa.Call)
			if !ok {
				return
			}
			if isStartInvoke(call) {
				start, basePath = call, an.PathOf(call.Call.Value)
			}
			if g := an.StaticCallee(&call.Call); g != nil {
				if wi := startWrapper(g); wi >= 0 && wi < len(call.Call.Args) {
					start, basePath = call, an.PathOf(call.Call.Args[wi])
				}
			}
		})
		if start == nil {
			continue
		}
		n++
		c.CountFuncs(1)
		dEnd := hasDeferredEnd(fn, basePath)
		if dEnd == nil {
			c.Bad(props, fname(c, fn), "defer ServeNostrEnd", P.Pos(start.Pos()), "ServeNostrStart is not paired with a deferred ServeNostrEnd on the same base: per-session state (gauges, subscription sets) is never released")
			continue
		}
		// every return not on the start-error edge is dominated by the defer; no other base/handler call precedes it
		good := an.InstrDominates(start, dEnd)
		for _, rb := range an.ReturnBlocks(fn) {
			if dEnd.Block() == rb || dEnd.Block().Dominates(rb) {
				continue
			}
			// the only other exit is the start-failed return: it must not be
			// reachable once the defer's block was entered
			if an.Reachable(dEnd.Block(), rb, nil, nil) {
				good = false
			}
		}
		an.Instrs(fn, func(in ssa.Instruction) {
			if call, ok := in.(ssa.CallInstruction); ok && call != ssa.CallInstruction(start) && call != ssa.CallInstruction(dEnd) {
				if call.Common().IsInvoke() && strings.HasPrefix(call.Common().Method.Name(), "ServeNostr") && !an.InstrDominates(dEnd, in) {
					good = false
				}
			}
		})
		// … and End is handed the context Start returned (or one derived from it), which carries what
		// Start attached to it (the Prometheus middleware's session id): not the function's own parameter
		if mc, isMC := dEnd.Call.Value.(*ssa.MakeClosure); isMC {
			an.Instrs(mc.Fn.(*ssa.Function), func(in2 ssa.Instruction) {
				call, ok := in2.(*ssa.Call)
				if !ok || !isEnd(&call.Call, basePath, an.PathOf) {
					return
				}
				var ctxArg ssa.Value
				for _, a := range call.Call.Args {
					if strings.HasSuffix(a.Type().String(), "context.Context") {
						ctxArg = a
						break
					}
				}
				if ctxArg == nil {
					return
				}
				fromStart := false
				v := an.LoadedValue(ctxArg)
				if u, isU := ctxArg.(*ssa.UnOp); isU {
					if fv, isFV := u.X.(*ssa.FreeVar); isFV {
						if cell, isA := an.FreeVarBinding(fv).(*ssa.Alloc); isA {
							for _, st := range an.StoresTo(cell) {
								if ex, isEx := st.Val.(*ssa.Extract); isEx && ex.Tuple == ssa.Value(start) && ex.Index == 0 && an.InstrDominates(st, dEnd) {
									fromStart = true
								}
							}
						}
					}
				}
				if ex, isEx := v.(*ssa.Extract); isEx && ex.Tuple == ssa.Value(start) && ex.Index == 0 {
					fromStart = true
				}
				if fv, isFV := ctxArg.(*ssa.FreeVar); isFV {
					if ex, isEx := an.FreeVarBinding(fv).(*ssa.Extract); isEx && ex.Tuple == ssa.Value(start) && ex.Index == 0 {
						fromStart = true
					}
				}
				c.Check(fromStart, props, fname(c, fn), "End(ctx of Start)", P.Pos(call.Pos()),
					"ServeNostrEnd receives the context ServeNostrStart returned",
					"ServeNostrEnd is called with "+an.PathOf(ctxArg)+", not with the context ServeNostrStart returned: what Start attached to its context (the session id the Prometheus middleware keys its tables by) does not reach End, so the session's gauge share and table entries are never released")
			})
		}
		c.Check(good, props, fname(c, fn), "defer ServeNostrEnd", P.Pos(dEnd.Pos()),
			"ServeNostrEnd is deferred right after a successful ServeNostrStart, before any other handler call and on every other exit",
			"some exit after a successful ServeNostrStart is not covered by the deferred ServeNostrEnd (or a handler call precedes the defer)")
	}
	if n == 0 {
		c.NoAnchor(nil, "callers of ServeNostrStart")
	}
}

func runUnsubAll(c *core.Ctx) {
	P := c.P
	serve := P.Method(P.Root, "RouterHandler", "ServeNostr")
	if serve == nil {
		c.NoAnchor(nil, "RouterHandler.ServeNostr")
		return
	}
	c.CountFuncs(1)
	var d *ssa.Defer
	idPath, regPath := "", ""
	an.Instrs(serve, func(in ssa.Instruction) {
		df, ok := in.(*ssa.Defer)
		if !ok {
			return
		}
		if strings.HasSuffix(an.CalleeName(&df.Call), "subscribers).UnsubscribeAll") {
			d = df
			idPath = an.PathOf(df.Call.Args[len(df.Call.Args)-1])
			regPath = an.PathOf(df.Call.Args[0])
			return
		}
		// one deferred clean-up closure that does it unconditionally (`defer func() { cancel(); subs.UnsubscribeAll(id) }()`)
		if mc, isMC := df.Call.Value.(*ssa.MakeClosure); isMC {
			if cl, isFn := mc.Fn.(*ssa.Function); isFn && len(cl.Blocks) == 1 {
				for _, ci := range calls(cl) {
					if inner, isCall := ci.(*ssa.Call); isCall && strings.HasSuffix(an.CalleeName(&inner.Call), "subscribers).UnsubscribeAll") {
						d = df
						idPath = an.PathOf(inner.Call.Args[len(inner.Call.Args)-1])
						regPath = an.PathOf(inner.Call.Args[0])
					}
				}
			}
			return
		}
		// a method of the per-connection value that does nothing but that (`defer ss.unsubscribeAll()`)
		h := an.StaticCallee(&df.Call)
		if h == nil || !an.PrivateHelper(h) || len(h.Blocks) != 1 || len(h.Params) != len(df.Call.Args) {
			return
		}
		for _, ci := range calls(h) {
			if inner, isCall := ci.(*ssa.Call); isCall && strings.HasSuffix(an.CalleeName(&inner.Call), "subscribers).UnsubscribeAll") {
				d = df
				idPath = an.PathOfIn(inner.Call.Args[len(inner.Call.Args)-1], &df.Call)
				regPath = an.PathOfIn(inner.Call.Args[0], &df.Call)
			}
		}
	})
	if d == nil {
		c.Bad(nil, fname(c, serve), "defer UnsubscribeAll", P.Pos(serve.Pos()), "the router session does not defer UnsubscribeAll: subscriptions of a finished connection stay in the registry and keep receiving events")
		return
	}
	good := strings.HasSuffix(regPath, "recv.subs")
	why := ""
	// same id is handed down as the session id to whatever subscribes
	sameID := false
	an.Instrs(serve, func(in ssa.Instruction) {
		call, ok := in.(*ssa.Call)
		if !ok {
			return
		}
		sc := an.StaticCallee(&call.Call)
		if sc == nil || !P.InModule(sc) || !reachesNamed(P, sc, "subscribers).Subscribe") {
			return
		}
		for _, a := range call.Call.Args {
			ap := an.PathOf(a)
			// the id itself, or a per-connection value built around it (`ss := newSession(id); … ss.recv(…)`)
			if ap == idPath || strings.HasPrefix(ap, "&lit{") && (strings.Contains(ap, "="+idPath+",") || strings.Contains(ap, "="+idPath+"}")) {
				sameID = true
			}
		}
		if !an.InstrDominates(d, in) {
			good = false
			why = "a call that can subscribe is not dominated by the defer"
		}
	})
	for _, rb := range an.ReturnBlocks(serve) {
		if !(d.Block() == rb || d.Block().Dominates(rb)) {
			good = false
			why = "a return is not dominated by the defer"
		}
	}
	c.Check(good && sameID, nil, fname(c, serve), "defer UnsubscribeAll", P.Pos(d.Pos()),
		"UnsubscribeAll("+idPath+") is deferred before the loop, on the registry, with the id the session subscribes under",
		fmt.Sprintf("deferred UnsubscribeAll does not cover the session (same id passed down: %v; %s)", sameID, why))
}

func reachesNamed(P *core.Program, fn *ssa.Function, suffix string) bool {
	for _, f := range an.RefClosure([]*ssa.Function{fn}, P.InModule) {
		if strings.HasSuffix(an.FuncFullName(f), suffix) {
			return true
		}
	}
	return false
}
