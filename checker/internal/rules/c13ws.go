package rules

import (
	"fmt"
	"strings"

	"golang.org/x/tools/go/ssa"

	"mocverif/internal/an"
	"mocverif/internal/core"
)

func init() {
	reg(&core.RuleInfo{Name: "WS-DEADLINE", Props: []string{"C13"}, Engine: "PROV", Floor: 2, Confirmed: 2,
		Doc: "every un-timed WebSocket write/ping is controlled by SendTimeout only", Run: runWSDeadline})
}

func runWSDeadline(c *core.Ctx) {
	P := c.P
	n := 0
	for _, fn := range P.ModFuncs {
		if P.PkgOf(fn) != core.ModulePath {
			continue
		}
		for _, ci := range calls(fn) {
			call, ok := ci.(*ssa.Call)
			if !ok {
				continue
			}
			name := an.CalleeName(&call.Call)
			if name != "(*github.com/coder/websocket.Conn).Write" && name != "(*github.com/coder/websocket.Conn).Ping" {
				continue
			}
			n++
			c.CountSites(1)
			short := name[strings.LastIndex(name, ".")+1:]
			construct := "ctx-arg of (*websocket.Conn)." + short
			ctxArg := call.Call.Args[1]
			timed := func(v ssa.Value) bool {
				p := an.PathOf(v)
				return strings.Contains(p, "call:context.WithTimeout(") && strings.Contains(p, ".SendTimeout")
			}
			type edge struct {
				v    ssa.Value
				pred *ssa.BasicBlock
			}
			var edges []edge
			var phiBlock *ssa.BasicBlock
			if ph, ok := ctxArg.(*ssa.Phi); ok {
				phiBlock = ph.Block()
				for i, e := range ph.Edges {
					edges = append(edges, edge{e, phiBlock.Preds[i]})
				}
			} else {
				edges = []edge{{ctxArg, nil}}
			}
			var problems []string
			nTimed, nUntimed := 0, 0
			for _, e := range edges {
				if timed(e.v) {
					nTimed++
					continue
				}
				nUntimed++
				if e.pred == nil {
					problems = append(problems, "the call never gets a deadline (context "+an.PathOf(e.v)+")")
					continue
				}
				// conditions under which the un-timed edge pred→phiBlock is taken
				paths, _ := an.PathsTo(fn, e.pred, 1024)
				c.CountPaths(len(paths))
				for _, p := range paths {
					q := append(append(an.Path(nil), p...), phiBlock)
					onlySend := false
					for _, cd := range q.Conds() {
						cp := an.PathOf(cd.V)
						if strings.Contains(cp, ".SendTimeout") {
							onlySend = true
						}
						for _, other := range []string{"PingDuration", "RecvRateLimit", "MaxMessageLength", "Logger"} {
							if strings.Contains(cp, "."+other) {
								problems = append(problems, fmt.Sprintf("the un-timed path is selected by %s, not by SendTimeout", cp))
							}
						}
					}
					if !onlySend {
						problems = append(problems, "an un-timed path is taken without any test of SendTimeout")
					}
				}
			}
			uniq := map[string]bool{}
			var ps []string
			for _, p := range problems {
				if !uniq[p] {
					uniq[p] = true
					ps = append(ps, p)
				}
			}
			c.Check(len(ps) == 0 && nTimed > 0, nil, fname(c, fn), construct, P.Pos(call.Pos()),
				fmt.Sprintf("%d timed edge(s) from WithTimeout(_, opt.SendTimeout); %d un-timed edge(s) controlled by SendTimeout only", nTimed, nUntimed),
				"with some option combination (e.g. PingDuration: 0, SendTimeout: 1s) a write to a peer that stopped reading blocks without deadline: "+strings.Join(ps, "; "))
		}
	}
	if n == 0 {
		c.NoAnchor(nil, "calls of (*websocket.Conn).Write/Ping")
	}
}
