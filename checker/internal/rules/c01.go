package rules

import (
	"fmt"
	"go/token"
	"go/types"
	"sort"
	"strings"

	"golang.org/x/tools/go/ssa"

	"mocverif/internal/an"
	"mocverif/internal/core"
)

func init() {
	reg(&core.RuleInfo{Name: "SER-1", Props: []string{"C01"}, Engine: "PROV", Floor: 2, Confirmed: 3,
		Doc: "the hashed tuple is [0,pubkey,created_at,kind,tags,content] of the receiver, in order", Run: runSer1})
	reg(&core.RuleInfo{Name: "SER-2", Props: []string{"C01"}, Engine: "CG", Floor: 1, Confirmed: 4,
		Doc: "no encoder on the serialisation path emits an escape NIP-01 forbids", Run: runSer2})
	reg(&core.RuleInfo{Name: "VER-1", Props: []string{"C01"}, Engine: "CFG", Floor: 3, Confirmed: 4,
		Doc: "Verify is true only behind the id equality and only as the Schnorr verdict over the right fields", Run: runVer1})
}

var tupleFields = []string{"Pubkey", "CreatedAt", "Kind", "Tags", "Content"}

func runSer1(c *core.Ctx) {
	P := c.P
	ser := P.Method(P.Root, "Event", "Serialize")
	if ser == nil {
		c.NoAnchor(nil, "Event.Serialize")
		return
	}
	c.CountFuncs(1)
	// form A: an array/slice literal handed to an encoder
	var lit *ssa.Alloc
	an.Instrs(ser, func(in ssa.Instruction) {
		if a, ok := in.(*ssa.Alloc); ok {
			if arr, ok := a.Type().(*types.Pointer).Elem().Underlying().(*types.Array); ok && arr.Len() == 6 {
				lit = a
			}
		}
	})
	want := []string{"const:0", "recv.Pubkey", "recv.CreatedAt", "recv.Kind", "recv.Tags", "recv.Content"}
	if lit != nil {
		got := make([]string, 6)
		for _, ref := range *lit.Referrers() {
			if ia, ok := ref.(*ssa.IndexAddr); ok {
				if k, ok := an.ConstInt(ia.Index); ok && k >= 0 && k < 6 {
					for _, r2 := range *ia.Referrers() {
						if st, ok := r2.(*ssa.Store); ok {
							got[k] = an.PathOf(st.Val)
						}
					}
				}
			}
		}
		c.Check(strings.Join(got, ",") == strings.Join(want, ","), nil, fname(c, ser), "tuple", P.Pos(lit.Pos()),
			"6-tuple literal = ["+strings.Join(got, ", ")+"]", "6-tuple literal = ["+strings.Join(got, ", ")+"], want ["+strings.Join(want, ", ")+"]")
		c.OK(nil, fname(c, ser), "tuple/fields", P.Pos(lit.Pos()), "literal form: elements checked positionally")
		return
	}
	// form B: sequential writer. Consumption point of a field = a call of a
	// (non-builtin) function with an argument read from recv.<Field>…
	first := map[string]ssa.Instruction{}
	readSet := map[string]bool{}
	an.Instrs(ser, func(in ssa.Instruction) {
		if u, ok := in.(*ssa.UnOp); ok && u.Op == token.MUL {
			p := an.PathOf(u)
			if strings.HasPrefix(p, "recv.") && strings.Count(p, ".") == 1 && !strings.ContainsAny(p, "[(") {
				readSet[strings.TrimPrefix(p, "recv.")] = true
			}
		}
		call, ok := in.(*ssa.Call)
		if !ok || an.StaticCallee(&call.Call) == nil {
			return
		}
		for _, a := range call.Call.Args {
			p := an.PathOf(a)
			for _, f := range []string{"ID", "Pubkey", "CreatedAt", "Kind", "Tags", "Content", "Sig"} {
				if p == "recv."+f || strings.HasPrefix(p, "recv."+f+"[") {
					if old, ok := first[f]; !ok || before(in, old) {
						first[f] = in
					}
				}
			}
		}
	})
	var reads []string
	for f := range readSet {
		reads = append(reads, f)
	}
	sort.Strings(reads)
	okFields := len(readSet) == len(tupleFields) && len(first) == len(tupleFields)
	for _, f := range tupleFields {
		if first[f] == nil || !readSet[f] {
			okFields = false
		}
	}
	c.Check(okFields, nil, fname(c, ser), "tuple/fields", P.Pos(ser.Pos()),
		"serialisation reads and writes exactly {Pubkey,CreatedAt,Kind,Tags,Content} of the receiver", fmt.Sprintf("serialisation reads receiver fields %v (written: %d of them), want exactly %v (ID and Sig are not part of the signed tuple; a missing field is not covered by the id)", reads, len(first), tupleFields))
	if !okFields {
		return
	}
	okOrder := true
	for i := 0; i+1 < len(tupleFields); i++ {
		if !before(first[tupleFields[i]], first[tupleFields[i+1]]) {
			okOrder = false
		}
	}
	// constant prefix "[0," written before the first field
	prefix := false
	an.Instrs(ser, func(in ssa.Instruction) {
		if call, ok := in.(*ssa.Call); ok {
			if b, ok := call.Call.Value.(*ssa.Builtin); ok && b.Name() == "append" && len(call.Call.Args) == 2 {
				if s, ok := an.ConstStr(call.Call.Args[1]); ok && s == "[0," && an.InstrDominates(in, first["Pubkey"]) {
					prefix = true
				}
			}
		}
	})
	// integers are written in base 10
	for _, call := range callsNamed(ser, "strconv.AppendInt") {
		if k, ok := an.ConstInt(call.Call.Args[2]); !ok || k != 10 {
			okOrder = false
		}
	}
	c.Check(okOrder && prefix, nil, fname(c, ser), "tuple", P.Pos(ser.Pos()),
		"writes \"[0,\" then Pubkey, CreatedAt, Kind, Tags, Content in that order on every path",
		fmt.Sprintf("field write order ok=%v, constant prefix \"[0,\" first=%v: the hashed bytes are not the NIP-01 tuple", okOrder, prefix))
}

// before: on every execution on which both run, a runs before the first b
// that follows it: b is reachable from a and a is not reachable from b.
// isU4xAppendf: call is fmt.Appendf(buf, `\u%04x`, x)
func isU4xAppendf(call *ssa.Call) bool {
	if an.CalleeName(&call.Call) != "fmt.Appendf" || len(call.Call.Args) != 3 {
		return false
	}
	f, ok := an.ConstStr(call.Call.Args[1])
	return ok && f == `\u%04x`
}

func before(a, b ssa.Instruction) bool {
	if a.Block() == b.Block() {
		return an.InstrDominates(a, b) && a != b
	}
	return an.Reachable(a.Block(), b.Block(), nil, nil) && !an.Reachable(b.Block(), a.Block(), nil, nil)
}

var nip01Table = map[int64]string{0x0A: `\n`, 0x22: `\"`, 0x5C: `\\`, 0x0D: `\r`, 0x09: `\t`, 0x08: `\b`, 0x0C: `\f`}

func runSer2(c *core.Ctx) {
	P := c.P
	ser := P.Method(P.Root, "Event", "Serialize")
	if ser == nil {
		c.NoAnchor(nil, "Event.Serialize")
		return
	}
	fns := an.RefClosure([]*ssa.Function{ser}, P.InModule)
	c.CountFuncs(len(fns))
	// (a) no stdlib JSON string encoder
	bad := false
	for _, fn := range fns {
		for _, ci := range calls(fn) {
			name := an.CalleeName(ci.Common())
			if name == "encoding/json.Marshal" || name == "encoding/json.MarshalIndent" || name == "(*encoding/json.Encoder).Encode" {
				bad = true
				c.CountSites(1)
				c.Bad(nil, fname(c, fn), "call:"+name, P.Pos(ci.Pos()),
					"the canonical form is produced by encoding/json, which escapes <, >, & (unless disabled) and always U+2028/U+2029; NIP-01 leaves them verbatim, so the id of a correctly signed event containing one of them is hashed over different bytes and Verify reports it as not authentic")
			}
		}
	}
	if bad {
		return
	}
	c.OK(nil, fname(c, ser), "no-stdlib-json-encoder", P.Pos(ser.Pos()), fmt.Sprintf("no encoding/json encoder among the %d module functions reachable from Serialize", len(fns)))
	// (b) hand-written escaper: locate the byte-indexed table
	var esc *ssa.Function
	var table *ssa.Global
	var subj ssa.Value
	for _, fn := range fns {
		an.Instrs(fn, func(in ssa.Instruction) {
			ia, ok := in.(*ssa.IndexAddr)
			if !ok {
				return
			}
			g, ok := ia.X.(*ssa.Global)
			if !ok {
				return
			}
			if bt, ok := ia.Index.Type().Underlying().(*types.Basic); ok && bt.Kind() == types.Uint8 {
				esc, table, subj = fn, g, ia.Index
			}
		})
	}
	if esc == nil {
		c.Unknown(nil, fname(c, ser), "escape-table", P.Pos(ser.Pos()), "no byte-indexed escape table found on the serialisation path: escaper idiom not recognised (expected a table keyed by the byte, a '< 0x20' branch and a verbatim branch)")
		return
	}
	got := map[int64]string{}
	initFn := P.Root.Func("init")
	an.Instrs(initFn, func(in ssa.Instruction) {
		st, ok := in.(*ssa.Store)
		if !ok {
			return
		}
		ia, ok := st.Addr.(*ssa.IndexAddr)
		if !ok || ia.X != ssa.Value(table) {
			return
		}
		k, ok1 := an.ConstInt(ia.Index)
		s, ok2 := an.ConstStr(st.Val)
		if ok1 && ok2 {
			got[k] = s
		}
	})
	eq := len(got) == len(nip01Table)
	var pairs []string
	for k, v := range got {
		pairs = append(pairs, fmt.Sprintf("0x%02X→%s", k, v))
		if nip01Table[k] != v {
			eq = false
		}
	}
	sort.Strings(pairs)
	c.CountSites(len(got))
	c.Check(eq, nil, fname(c, esc), "escape-table", P.Pos(esc.Pos()), "escape table = {"+strings.Join(pairs, ", ")+"} = NIP-01's seven escapes",
		"escape table = {"+strings.Join(pairs, ", ")+"}, want exactly {0x0A→\\n, 0x22→\\\", 0x5C→\\\\, 0x0D→\\r, 0x09→\\t, 0x08→\\b, 0x0C→\\f}")
	// (c) remaining control characters as \u00xx, everything else verbatim
	fr := an.Frame{
		IsSubject: func(v ssa.Value) bool { return v == subj },
		Term:      func(v ssa.Value) (int64, bool) { return an.ConstInt(v) },
		Domain:    an.Range(0, 255),
	}
	var ctlBlock, verbBlock *ssa.BasicBlock
	var ctlCall, tableCall *ssa.Call
	ctlOK := false
	an.Instrs(esc, func(in ssa.Instruction) {
		call, ok := in.(*ssa.Call)
		if !ok {
			return
		}
		// the \u00xx branch written with the standard library: fmt.Appendf(dst, `\u%04x`, c) — four
		// lower-case hex digits, zero-padded, of the byte itself
		if isU4xAppendf(call) {
			if elems, okE := an.VariadicElems(call.Call.Args[2]); okE && len(elems) == 1 {
				v := elems[0]
				if mi, isMI := v.(*ssa.MakeInterface); isMI {
					v = mi.X
				}
				if v == subj {
					ctlBlock, ctlCall, ctlOK = call.Block(), call, true
				}
			}
			return
		}
		b, ok := call.Call.Value.(*ssa.Builtin)
		if !ok || b.Name() != "append" || len(call.Call.Args) != 2 {
			return
		}
		// the table entry of the byte, appended as it is
		if u, isU := call.Call.Args[1].(*ssa.UnOp); isU && u.Op == token.MUL {
			if ia, isIA := u.X.(*ssa.IndexAddr); isIA && ia.X == ssa.Value(table) && ia.Index == subj {
				tableCall = call
			}
		}
		elems, ok := an.VariadicElems(call.Call.Args[1])
		if !ok {
			return
		}
		if len(elems) == 1 && elems[0] == subj {
			verbBlock = call.Block()
		}
		if len(elems) == 6 {
			ks := []int64{}
			for _, e := range elems[:4] {
				k, _ := an.ConstInt(e)
				ks = append(ks, k)
			}
			if fmt.Sprint(ks) == "[92 117 48 48]" {
				ctlBlock = call.Block()
				ctlCall = call
				hi, lo := an.PathOf(elems[4]), an.PathOf(elems[5])
				sp := an.PathOf(subj)
				ctlOK = hi == `const:"0123456789abcdef"[*]` && lo == hi &&
					hexIdx(elems[4], subj, token.SHR, 4) && hexIdx(elems[5], subj, token.AND, 15)
				_ = sp
			}
		}
	})
	if ctlBlock != nil && verbBlock == nil {
		// no per-byte verbatim append: runs of verbatim bytes copied in one go?
		rc := runCopyIdiom(esc, subj, tableCall, ctlCall)
		if !rc.ok {
			c.Unknown(nil, fname(c, esc), "control-range", P.Pos(esc.Pos()), "no per-byte verbatim branch, and not a verified run-copying escaper: "+rc.why)
			return
		}
		cs, n1, ok1 := fr.ReachSet(esc, ctlBlock, nil, nil)
		vs, n2, ok2 := fr.ReachEdge(esc, rc.skip, nil, nil)
		c.CountPaths(n1 + n2)
		// the skip edge is taken only for bytes without a table entry
		noEntry := false
		if ps, okp := an.PathsTo(esc, rc.skip.From, 4096); okp {
			noEntry = len(ps) > 0
			for _, p := range ps {
				q := append(append(an.Path(nil), p...), rc.skip.To)
				if !an.Feasible(q) {
					continue
				}
				has := false
				for _, cd := range q.Conds() {
					cd = an.NormCond(cd)
					if b, isB := cd.V.(*ssa.BinOp); isB && b.Op == token.EQL && cd.True {
						if k, isK := an.ConstStr(b.Y); isK && k == "" {
							if u, isU := b.X.(*ssa.UnOp); isU {
								if ia, isIA := u.X.(*ssa.IndexAddr); isIA && ia.X == ssa.Value(table) && ia.Index == subj {
									has = true
								}
							}
						}
					}
				}
				if !has {
					noEntry = false
				}
			}
		}
		c.Check(ok1 && ctlOK && cs.Equal(an.Range(0, 31)), nil, fname(c, esc), "control-range", P.Pos(ctlBlock.Instrs[0].Pos()),
			"bytes not in the table and ∈ "+cs.String()+" are written as \\u00 + two lower-case hex digits (high nibble, low nibble)",
			fmt.Sprintf("the \\u00xx branch runs for bytes ∈ %s (want [0,31]) with digits ok=%v", cs, ctlOK))
		c.Check(ok2 && noEntry && vs.Equal(an.Range(32, 255)), nil, fname(c, esc), "verbatim-range", P.Pos(rc.skip.From.Instrs[0].Pos()),
			"run-copying escaper (start/flush/tail bookkeeping verified): a byte is left in the pending run iff it has no table entry and ∈ "+vs.String()+"; runs are copied verbatim",
			fmt.Sprintf("run-copying escaper: a byte stays in the verbatim run when ∈ %s (no table entry on that edge: %v), want [32,255]", vs, noEntry))
		return
	}
	if ctlBlock == nil || verbBlock == nil {
		c.Unknown(nil, fname(c, esc), "control-range", P.Pos(esc.Pos()), "the \\u00xx branch or the verbatim branch of the escaper was not recognised")
		return
	}
	cs, n1, ok1 := fr.ReachSet(esc, ctlBlock, nil, nil)
	vs, n2, ok2 := fr.ReachSet(esc, verbBlock, nil, nil)
	c.CountPaths(n1 + n2)
	c.Check(ok1 && ctlOK && cs.Equal(an.Range(0, 31)), nil, fname(c, esc), "control-range", P.Pos(ctlBlock.Instrs[0].Pos()),
		"bytes not in the table and ∈ "+cs.String()+" are written as \\u00 + two lower-case hex digits (high nibble, low nibble)",
		fmt.Sprintf("the \\u00xx branch runs for bytes ∈ %s (want [0,31]) with digits ok=%v", cs, ctlOK))
	// ASCII by the byte, the rest by the rune: bytes ≥ 0x80 are decoded with utf8.DecodeRuneInString and
	// the bytes of the rune copied as they stand; a special way out is taken only for an undecodable
	// byte — RuneError *and* size 1 (RuneError with size 3 is the ordinary character U+FFFD)
	if ok2 && vs.Equal(an.Range(32, 127)) {
		rb := runeBranchOf(esc)
		if rb.found {
			ds, n3, ok3 := fr.ReachSet(esc, rb.decode.Block(), nil, nil)
			c.CountPaths(n3)
			c.Check(rb.ok && ok3 && ds.Equal(an.Range(128, 255)), nil, fname(c, esc), "verbatim-range", P.Pos(verbBlock.Instrs[0].Pos()),
				"bytes not in the table and ∈ [32,127] are copied verbatim; bytes ∈ "+ds.String()+" are decoded as runes whose bytes are copied as they stand, except an undecodable byte (RuneError with size 1)",
				fmt.Sprintf("rune-wise branch for bytes ∈ %s (want [128,255]): %s", ds, rb.why))
			return
		}
	}
	c.Check(ok2 && vs.Equal(an.Range(32, 255)), nil, fname(c, esc), "verbatim-range", P.Pos(verbBlock.Instrs[0].Pos()),
		"bytes not in the table and ∈ "+vs.String()+" are copied verbatim (so <, >, &, multi-byte UTF-8 incl. U+2028/9 pass through)",
		"verbatim branch runs for bytes ∈ "+vs.String()+", want [32,255]")
}

// hexIdx: v is "0123456789abcdef"[subj op k].
func hexIdx(v, subj ssa.Value, op token.Token, k int64) bool {
	ix, ok := v.(*ssa.Index)
	if !ok {
		return false
	}
	idx := an.Unwrap(ix.Index)
	b, ok := idx.(*ssa.BinOp)
	if !ok || b.Op != op || an.Unwrap(b.X) != subj {
		return false
	}
	kk, ok := an.ConstInt(b.Y)
	return ok && kk == k
}

func runVer1(c *core.Ctx) {
	P := c.P
	ver := P.Method(P.Root, "Event", "Verify")
	if ver == nil {
		c.NoAnchor(nil, "Event.Verify")
		return
	}
	c.CountFuncs(1)
	const hexDec = "call:encoding/hex.DecodeString("
	idBin := hexDec + "recv.ID)#0"
	schn := "github.com/btcsuite/btcd/btcec/v2/schnorr."
	wantCall := "call:(*" + schn + "Signature).Verify(call:" + schn + "ParseSignature(" + hexDec + "recv.Sig)#0)#0," + idBin + ",call:" + schn + "ParsePubKey(" + hexDec + "recv.Pubkey)#0)#0)"
	serPath := ""
	an.Region(ver, nil, func(o an.Occ) {
		if call, ok := o.In.(*ssa.Call); ok && strings.HasSuffix(an.CalleeName(&call.Call), "mocrelay.Event).Serialize") {
			serPath = o.Path(call) + "#0"
		}
	})
	wantEq := []string{idBin, "call:crypto/sha256.Sum256(" + serPath + ")"}
	// authenticity told as an error: `Verify` answers `err == nil` for the error of a checking method
	// (`Check() error`, every reason joined) — "may be true" is then "that method may return nil"
	if chk := ver1ErrorForm(ver); chk != nil {
		runVer1Err(c, ver, chk)
		return
	}
	nTrue := 0
	for _, rb := range an.ReturnBlocks(ver) {
		r := an.LastInstr(rb).(*ssa.Return)
		if isConstBool(r.Results[0], false) {
			continue
		}
		nTrue++
		c.CountSites(1)
		got := an.PathOf(r.Results[0])
		okVal := got == wantCall
		how := "the only non-false result is schnorr.Verify(sig←Sig, hash←ID bytes, key←Pubkey)"
		cacheWhy := ""
		if !okVal && isConstBool(r.Results[0], true) {
			// the constant true behind the Schnorr verdict (`if !sig.Verify(…) { return false, nil }; …; return true, nil`),
			// or behind a hit in a cache of exactly such verdicts
			for _, g := range an.Guards(ver, rb) {
				if !g.True {
					continue
				}
				if an.PathOf(g.V) == wantCall {
					okVal, how = true, "the constant true is returned only behind schnorr.Verify(sig←Sig, hash←ID bytes, key←Pubkey) == true"
				}
				if ok, why := verdictCacheHit(c, ver, g.V, wantCall); ok {
					okVal, how = true, "the constant true is returned only behind a hit in a cache keyed by the full (ID, Pubkey, Sig) that is filled only behind schnorr.Verify == true for that very key"
				} else if why != "" {
					cacheWhy = " (a cache lookup guards it, but: " + why + ")"
				}
			}
		}
		c.Check(okVal, nil, fname(c, ver), "return#may-be-true/value", P.Pos(r.Pos()), how,
			"a possibly-true result is "+got+", want the Schnorr verdict "+wantCall+cacheWhy)
		// id equality edge-dominates this return
		okEq := false
		var seen []string
		for _, g := range an.Guards(ver, rb) {
			v, pol := g.V, g.True
			for {
				if u, ok := v.(*ssa.UnOp); ok && u.Op == token.NOT {
					v, pol = u.X, !pol
					continue
				}
				break
			}
			if !pol {
				continue
			}
			// the comparison by its access path: written here, or the verdict of a private
			// helper whose result is that comparison
			vp := an.PathOf(v)
			if strings.HasPrefix(vp, "call:bytes.Equal(") {
				seen = append(seen, vp)
				if vp == "call:bytes.Equal("+wantEq[0]+","+wantEq[1]+")" || vp == "call:bytes.Equal("+wantEq[1]+","+wantEq[0]+")" {
					okEq = true
				}
			}
		}
		if !okEq {
			// the comparison made inside a phase helper whose verdict Verify tests (`ok, err := chk.checkID();
			// if !ok { return false, nil }`): the helper answers true only on paths that took the
			// comparison's true edge
			for _, g := range an.Guards(ver, rb) {
				g = an.NormCond(g)
				ex, isEx := g.V.(*ssa.Extract)
				if !g.True || !isEx || ex.Index != 0 {
					continue
				}
				hc, isCall := ex.Tuple.(*ssa.Call)
				if !isCall {
					continue
				}
				h := an.StaticCallee(&hc.Call)
				if !an.PrivateHelper(h) {
					continue
				}
				tps, okp := an.ResultPathsDeepVia(h, 0, true, hc)
				if !okp || len(tps) == 0 {
					continue
				}
				all := true
				for _, tp := range tps {
					hit := false
					for _, cd := range tp.Conds {
						if !cd.True {
							continue
						}
						vp := cd.Path(cd.V)
						if strings.HasPrefix(vp, "call:bytes.Equal(") {
							seen = append(seen, vp)
						}
						if vp == "call:bytes.Equal("+wantEq[0]+","+wantEq[1]+")" || vp == "call:bytes.Equal("+wantEq[1]+","+wantEq[0]+")" {
							hit = true
						}
					}
					if !hit {
						all = false
					}
				}
				if all {
					okEq = true
				}
			}
		}
		c.Check(okEq && serPath != "", nil, fname(c, ver), "return#may-be-true/id-check", P.Pos(r.Pos()),
			"dominated by bytes.Equal(hex(ID), sha256(Serialize(ev))) over the whole values",
			fmt.Sprintf("the possibly-true result is not dominated by the full comparison hex(ID) == sha256(Serialize(ev)) (bytes.Equal of %s and %s); comparisons found: %v", wantEq[0], wantEq[1], seen))
	}
	c.Check(nTrue >= 1, nil, fname(c, ver), "returns", P.Pos(ver.Pos()), fmt.Sprintf("%d return(s) can be true, each one checked", nTrue), "no return of Verify can be true")
}

// verdictCacheHit: v is a membership test `ok(G.m[key])` of a package-level set G, read
// through its own method, such that a hit can only mean "the Schnorr check wantCall
// returned true for this very (ID, Pubkey, Sig)":
//   - key is a struct of exactly the three whole strings recv.ID, recv.Pubkey, recv.Sig;
//   - the map is a field of G's struct type that only methods of that type touch, and every
//     insertion into it there uses the method's own parameter as the key;
//   - every call of such an inserting method on G lies in Verify, passes the same key, and is
//     dominated by wantCall == true;
//   - G is assigned only by the package initialiser.
//
// why is non-empty when v looks like such a lookup but one of the conditions fails.
func verdictCacheHit(c *core.Ctx, ver *ssa.Function, v ssa.Value, wantCall string) (bool, string) {
	P := c.P
	vp := an.PathOf(v)
	if !strings.HasPrefix(vp, "ok(global:") || !strings.HasSuffix(vp, "])") {
		return false, ""
	}
	inner := strings.TrimSuffix(strings.TrimPrefix(vp, "ok("), ")")
	br := strings.Index(inner, "[")
	if br < 0 {
		return false, ""
	}
	mapPath, key := inner[:br], inner[br+1:len(inner)-1]
	dot := strings.LastIndex(mapPath, ".")
	if dot < 0 {
		return false, ""
	}
	gname, mfield := strings.TrimPrefix(mapPath[:dot], "global:"), mapPath[dot+1:]
	// the key: exactly the three strings
	if !strings.HasPrefix(key, "lit{") || strings.Count(key, "=") != 3 || !strings.Contains(key, "=recv.ID") || !strings.Contains(key, "=recv.Pubkey") || !strings.Contains(key, "=recv.Sig") {
		return false, "the key " + key + " is not the struct of exactly the whole ID, Pubkey and Sig"
	}
	for _, f := range []string{"=recv.ID", "=recv.Pubkey", "=recv.Sig"} {
		i := strings.Index(key, f) + len(f)
		if i < len(key) && key[i] != ',' && key[i] != '}' {
			return false, "the key " + key + " uses a part of a field, not the whole string"
		}
	}
	var G *ssa.Global
	for _, m := range P.Root.Members {
		if g, ok := m.(*ssa.Global); ok && g.Name() == gname {
			G = g
		}
	}
	if G == nil {
		return false, "global " + gname + " not found"
	}
	// assigned only by the initialiser
	for _, fn := range P.ModFuncs {
		bad := false
		an.Instrs(fn, func(in ssa.Instruction) {
			if st, ok := in.(*ssa.Store); ok && st.Addr == ssa.Value(G) && fn.Name() != "init" {
				bad = true
			}
		})
		if bad {
			return false, gname + " is reassigned in " + fname(c, fn)
		}
	}
	// the set's struct type
	t := G.Type().(*types.Pointer).Elem()
	if p, ok := t.Underlying().(*types.Pointer); ok {
		t = p.Elem()
	}
	named, _ := t.(*types.Named)
	if named == nil {
		return false, gname + " is not a named struct"
	}
	if o := named.Origin(); o != nil {
		named = o
	}
	// who touches the map, and how it is filled
	inserters := map[*ssa.Function]bool{}
	why := ""
	for _, fn := range P.ModFuncs {
		an.Instrs(fn, func(in ssa.Instruction) {
			fa, ok := in.(*ssa.FieldAddr)
			if !ok {
				return
			}
			n, st := structOf(fa)
			if n == nil || n.Obj() != named.Obj() || an.FieldNameHook(st, fa.Field) != mfield || freshBase(fa) {
				return
			}
			root := fn
			for root.Parent() != nil {
				root = root.Parent()
			}
			if recvNamed(root) != named.Obj() {
				why = "the map " + mfield + " is also touched outside the set's own methods (" + fname(c, fn) + ")"
			}
		})
		an.Instrs(fn, func(in ssa.Instruction) {
			mu, ok := in.(*ssa.MapUpdate)
			if !ok || an.PathOf(mu.Map) != "recv."+mfield || recvNamed(fn) != named.Obj() {
				return
			}
			if _, isParam := an.Unwrap(mu.Key).(*ssa.Parameter); !isParam {
				why = fname(c, fn) + " inserts a key other than its own parameter"
			}
			inserters[originOf(fn)] = true
		})
	}
	if why != "" {
		return false, why
	}
	if len(inserters) == 0 {
		return false, "no method fills the set"
	}
	nAdd := 0
	for _, fn := range P.ModFuncs {
		for _, ci := range calls(fn) {
			g := an.StaticCallee(ci.Common())
			if g == nil || !inserters[originOf(g)] || len(ci.Common().Args) < 2 || an.PathOf(ci.Common().Args[0]) != "global:"+gname {
				continue
			}
			nAdd++
			call, isCall := ci.(*ssa.Call)
			if !isCall || fn != ver {
				return false, "the cache is also filled at " + P.Pos(ci.Pos()) + " (outside Verify, or deferred)"
			}
			if an.PathOf(call.Call.Args[1]) != key {
				return false, "the cache is filled at " + P.Pos(ci.Pos()) + " under a different key than the one looked up"
			}
			verdict := false
			for _, gd := range an.Guards(ver, call.Block()) {
				if gd.True && an.PathOf(gd.V) == wantCall {
					verdict = true
				}
			}
			if !verdict {
				return false, "the cache is filled at " + P.Pos(ci.Pos()) + " without the Schnorr verdict having been true for that key"
			}
		}
	}
	if nAdd == 0 {
		return false, "the cache is never filled"
	}
	return true, ""
}

// runeBranch: the part of an escaper that handles non-ASCII input by the rune.
type runeBranch struct {
	found  bool
	ok     bool
	why    string
	decode *ssa.Call
	copies map[*ssa.Call]bool // appends of s[i:i+size]
}

var runeBranchCache = map[*ssa.Function]*runeBranch{}

// runeBranchOf: esc calls utf8.DecodeRuneInString(s[i:]) on its string parameter; every way from
// there to the next loop iteration or return either appends exactly s[i:i+size] (size = the decoder's
// second result) to the buffer, or has found r == RuneError *and* size == 1 (an undecodable byte).
func runeBranchOf(esc *ssa.Function) *runeBranch {
	if rb, ok := runeBranchCache[esc]; ok {
		return rb
	}
	rb := &runeBranch{copies: map[*ssa.Call]bool{}}
	runeBranchCache[esc] = rb
	if esc == nil {
		return rb
	}
	an.Instrs(esc, func(in ssa.Instruction) {
		if call, ok := in.(*ssa.Call); ok && (an.CalleeName(&call.Call) == "unicode/utf8.DecodeRuneInString" || an.CalleeName(&call.Call) == "unicode/utf8.DecodeRune") {
			rb.decode = call
		}
	})
	if rb.decode == nil {
		return rb
	}
	rb.found = true
	var rEx, sizeEx *ssa.Extract
	if rb.decode.Referrers() != nil {
		for _, r := range *rb.decode.Referrers() {
			if e, ok := r.(*ssa.Extract); ok {
				if e.Index == 0 {
					rEx = e
				} else {
					sizeEx = e
				}
			}
		}
	}
	if sizeEx == nil {
		rb.why = "the size of the decoded rune is not used"
		return rb
	}
	// the decoder reads s[i:]
	src, isSl := rb.decode.Call.Args[0].(*ssa.Slice)
	if !isSl || src.High != nil || src.Low == nil {
		rb.why = "the decoder is not applied to s[i:]"
		return rb
	}
	// appends of s[i:i+size]
	an.Instrs(esc, func(in ssa.Instruction) {
		call, ok := in.(*ssa.Call)
		if !ok {
			return
		}
		if b, isB := call.Call.Value.(*ssa.Builtin); !isB || b.Name() != "append" || len(call.Call.Args) != 2 {
			return
		}
		sl, isSl2 := call.Call.Args[1].(*ssa.Slice)
		if !isSl2 || sl.X != src.X || sl.Low != src.Low || sl.High == nil {
			return
		}
		if add, isAdd := sl.High.(*ssa.BinOp); isAdd && add.Op == token.ADD && ((add.X == src.Low && add.Y == ssa.Value(sizeEx)) || (add.Y == src.Low && add.X == ssa.Value(sizeEx))) {
			rb.copies[call] = true
		}
	})
	if len(rb.copies) == 0 {
		rb.why = "the bytes of the decoded rune are not appended as s[i:i+size]"
		return rb
	}
	// every way on from the decoder: the copy, or an undecodable byte
	exits := map[*ssa.BasicBlock]bool{}
	hdr := an.LoopHeaderOf(rb.decode.Block())
	for _, b := range esc.Blocks {
		if _, isRet := an.LastInstr(b).(*ssa.Return); isRet {
			exits[b] = true
		}
	}
	if hdr != nil {
		exits[hdr] = true
	}
	rb.ok = true
	var walk func(p an.Path)
	seen := 0
	walk = func(p an.Path) {
		if seen > 4096 || !rb.ok {
			return
		}
		last := p[len(p)-1]
		if len(p) > 1 && exits[last] {
			seen++
			copied := false
			for _, b := range p[:len(p)-1] {
				for _, in := range b.Instrs {
					if c2, ok := in.(*ssa.Call); ok && rb.copies[c2] {
						copied = true
					}
				}
			}
			if copied {
				return
			}
			isErr, isOne := false, false
			for _, cd := range p.Conds() {
				cd = an.NormCond(cd)
				b, ok := cd.V.(*ssa.BinOp)
				if !ok || (b.Op == token.EQL) != cd.True || (b.Op != token.EQL && b.Op != token.NEQ) {
					continue
				}
				k, isK := an.ConstInt(b.Y)
				if !isK {
					continue
				}
				if rEx != nil && b.X == ssa.Value(rEx) && k == 0xFFFD {
					isErr = true
				}
				if b.X == ssa.Value(sizeEx) && k == 1 {
					isOne = true
				}
			}
			if !(isErr && isOne) {
				rb.ok = false
				rb.why = "a way on from the decoder neither copies the rune's bytes nor has found RuneError together with size 1: a validly encoded U+FFFD (RuneError, size 3) is treated as undecodable"
			}
			return
		}
		for _, sc := range last.Succs {
			on := false
			for _, q := range p[1:] {
				if q == sc {
					on = true
				}
			}
			if on {
				continue
			}
			walk(append(append(an.Path(nil), p...), sc))
		}
	}
	walk(an.Path{rb.decode.Block()})
	return rb
}

// ver1ErrorForm: every result of ver that is not the constant false is `g(recv) == nil` for one
// method g of the event that returns an error. nil otherwise.
func ver1ErrorForm(ver *ssa.Function) *ssa.Function {
	var g *ssa.Function
	n := 0
	for _, rb := range an.ReturnBlocks(ver) {
		r := an.LastInstr(rb).(*ssa.Return)
		if isConstBool(r.Results[0], false) {
			continue
		}
		n++
		bo, ok := r.Results[0].(*ssa.BinOp)
		if !ok || bo.Op != token.EQL || !an.IsNilConst(bo.Y) {
			return nil
		}
		call, ok := bo.X.(*ssa.Call)
		if !ok || len(call.Call.Args) != 1 || an.PathOf(call.Call.Args[0]) != "recv" {
			return nil
		}
		h := an.StaticCallee(&call.Call)
		if h == nil || !an.InModuleFn(h) || recvTypeName(h) != "Event" || h.Signature.Results().Len() != 1 ||
			!types.Identical(h.Signature.Results().At(0).Type(), types.Universe.Lookup("error").Type()) {
			return nil
		}
		if g != nil && g != h {
			return nil
		}
		g = h
	}
	if n == 0 {
		return nil
	}
	return g
}

// errMayBeNil: the error value v, as resolved along path p, can be nil. Values that cannot: made by
// fmt.Errorf / errors.New, a concrete error boxed here, a package error variable, and errors.Join of
// arguments one of which cannot.
func errMayBeNil(v ssa.Value, p an.Path, depth int) bool {
	v = resolveRet(v, p)
	if depth > 4 {
		return true
	}
	// (a variable assigned on one branch: the edge the path took)
	if ph, isPhi := v.(*ssa.Phi); isPhi {
		for i := len(p) - 1; i >= 1; i-- {
			if p[i] != ph.Block() {
				continue
			}
			for j, pb := range ph.Block().Preds {
				if pb == p[i-1] && j < len(ph.Edges) {
					return errMayBeNil(ph.Edges[j], p[:i], depth+1)
				}
			}
			break
		}
		return true
	}
	if definitelyError(v) {
		return false
	}
	if call, ok := v.(*ssa.Call); ok && an.CalleeName(&call.Call) == "errors.Join" && len(call.Call.Args) == 1 {
		if elems, okE := an.VariadicElems(call.Call.Args[0]); okE {
			for _, el := range elems {
				if ci, isCI := el.(*ssa.ChangeInterface); isCI {
					el = ci.X
				}
				if !errMayBeNil(el, p, depth+1) {
					return false
				}
			}
		}
	}
	return true
}

func runVer1Err(c *core.Ctx, ver, chk *ssa.Function) {
	P := c.P
	c.CountFuncs(1)
	const hexDec = "call:encoding/hex.DecodeString("
	idBin := hexDec + "recv.ID)#0"
	schn := "github.com/btcsuite/btcd/btcec/v2/schnorr."
	serPath := ""
	an.Region(chk, nil, func(o an.Occ) {
		if call, ok := o.In.(*ssa.Call); ok && strings.HasSuffix(an.CalleeName(&call.Call), "mocrelay.Event).Serialize") {
			serPath = o.Path(call) + "#0"
		}
	})
	hash := "call:crypto/sha256.Sum256(" + serPath + ")"
	sigOver := func(h string) string {
		return "call:(*" + schn + "Signature).Verify(call:" + schn + "ParseSignature(" + hexDec + "recv.Sig)#0)#0," + h + ",call:" + schn + "ParsePubKey(" + hexDec + "recv.Pubkey)#0)#0)"
	}
	// the signed message: the id bytes, or the hash they are compared with
	wantCalls := map[string]bool{sigOver(idBin): true, sigOver(hash): true}
	eqs := map[string]bool{"call:bytes.Equal(" + idBin + "," + hash + ")": true, "call:bytes.Equal(" + hash + "," + idBin + ")": true}
	nNil := 0
	for _, rb := range an.ReturnBlocks(chk) {
		r := an.LastInstr(rb).(*ssa.Return)
		paths, ok := an.PathsTo(chk, rb, 4096)
		if !ok {
			c.Unknown(nil, fname(c, chk), "return#may-be-nil", P.Pos(r.Pos()), "too many paths")
			return
		}
		c.CountPaths(len(paths))
		sigOK, idOK, any := true, true, false
		var seen []string
		for _, p := range paths {
			if !an.Feasible(p) || !errMayBeNil(an.ReturnValues(r)[0], p, 0) {
				continue
			}
			any = true
			hasSig, hasEq := false, false
			for _, cd := range p.Conds() {
				v, pol := stripNot(cd.V, cd.True)
				if !pol {
					continue
				}
				vp := an.PathOf(v)
				if wantCalls[vp] {
					hasSig = true
				}
				if strings.HasPrefix(vp, "call:bytes.Equal(") {
					seen = append(seen, vp)
					if eqs[vp] {
						hasEq = true
					}
				}
			}
			sigOK, idOK = sigOK && hasSig, idOK && hasEq
		}
		if !any {
			continue
		}
		nNil++
		c.CountSites(1)
		c.Check(sigOK, nil, fname(c, chk), "return#may-be-nil/value", P.Pos(r.Pos()),
			"every way to a nil error has taken the true edge of schnorr.Verify(sig←Sig, hash←ID bytes or the hash they equal, key←Pubkey)",
			"the check can answer nil (authentic) on a way that has not taken the true edge of the Schnorr verdict over the event's own id / hash, signature and public key")
		c.Check(idOK && serPath != "", nil, fname(c, chk), "return#may-be-nil/id-check", P.Pos(r.Pos()),
			"every way to a nil error has taken the true edge of bytes.Equal(hex(ID), sha256(Serialize(ev))) over the whole values",
			fmt.Sprintf("the check can answer nil (authentic) on a way that has not found hex(ID) == sha256(Serialize(ev)) (bytes.Equal of %s and %s); comparisons found: %v", idBin, hash, uniq(seen)))
	}
	c.Check(nNil >= 1, nil, fname(c, ver), "returns", P.Pos(ver.Pos()), fmt.Sprintf("Verify is %s() == nil; %d return(s) of it can be nil, each one checked", chk.Name(), nNil), "no return of the check can be nil: no event is authentic")
}
