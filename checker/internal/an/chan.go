package an

import (
	"go/token"
	"go/types"
	"strings"

	"golang.org/x/tools/go/ssa"
)

// E-CHAN: every channel operation of a function, classified.

type ChanOpKind int

const (
	OpSend ChanOpKind = iota
	OpRecv
	OpSelect
	OpRange
	OpClose
)

type ChanOp struct {
	Kind     ChanOpKind
	Fn       *ssa.Function
	Instr    ssa.Instruction
	Chan     ssa.Value   // for Send/Recv/Range/Close
	Select   *ssa.Select // for OpSelect
	Deferred bool        // the op is a deferred call (close)
}

func isChan(t types.Type) bool {
	_, ok := t.Underlying().(*types.Chan)
	return ok
}

// ChanOps lists the channel operations of fn (not of nested closures).
func ChanOps(fn *ssa.Function) []ChanOp {
	var out []ChanOp
	Instrs(fn, func(in ssa.Instruction) {
		switch x := in.(type) {
		case *ssa.Send:
			out = append(out, ChanOp{Kind: OpSend, Fn: fn, Instr: in, Chan: x.Chan})
		case *ssa.UnOp:
			if x.Op == token.ARROW {
				out = append(out, ChanOp{Kind: OpRecv, Fn: fn, Instr: in, Chan: x.X})
			}
		case *ssa.Select:
			out = append(out, ChanOp{Kind: OpSelect, Fn: fn, Instr: in, Select: x})
		case *ssa.Range:
			if isChan(x.X.Type()) {
				out = append(out, ChanOp{Kind: OpRange, Fn: fn, Instr: in, Chan: x.X})
			}
		case *ssa.Call:
			if b, ok := x.Call.Value.(*ssa.Builtin); ok && b.Name() == "close" {
				out = append(out, ChanOp{Kind: OpClose, Fn: fn, Instr: in, Chan: x.Call.Args[0]})
			}
		case *ssa.Defer:
			if b, ok := x.Call.Value.(*ssa.Builtin); ok && b.Name() == "close" {
				out = append(out, ChanOp{Kind: OpClose, Fn: fn, Instr: in, Chan: x.Call.Args[0], Deferred: true})
			}
		}
	})
	return out
}

// IsCtxDone: v is ctx.Done() of a context.Context; returns the context value.
func IsCtxDone(v ssa.Value) (ssa.Value, bool) {
	call, ok := v.(*ssa.Call)
	if !ok {
		return nil, false
	}
	if call.Call.IsInvoke() && call.Call.Method.Name() == "Done" && strings.HasSuffix(types.TypeString(call.Call.Value.Type(), nil), "context.Context") {
		return call.Call.Value, true
	}
	return nil, false
}

// SelectDoneState returns the index of a state receiving from ctx.Done(), or -1.
func SelectDoneState(s *ssa.Select) int {
	for i, st := range s.States {
		if st.Dir == types.RecvOnly {
			if _, ok := IsCtxDone(st.Chan); ok {
				return i
			}
		}
	}
	return -1
}

// SelectCaseBlock returns the block executed when state i of sel fires:
// go/ssa lowers "select" to "idx = extract sel #0; if idx == 0 …" chains.
func SelectCaseBlock(sel *ssa.Select, i int) *ssa.BasicBlock {
	var idx ssa.Value
	if sel.Referrers() == nil {
		return nil
	}
	for _, r := range *sel.Referrers() {
		if e, ok := r.(*ssa.Extract); ok && e.Index == 0 {
			idx = e
		}
	}
	if idx == nil || idx.Referrers() == nil {
		return nil
	}
	for _, r := range *idx.Referrers() {
		b, ok := r.(*ssa.BinOp)
		if !ok || b.Op != token.EQL {
			continue
		}
		k, ok := ConstInt(b.Y)
		if !ok || int(k) != i || b.Referrers() == nil {
			continue
		}
		for _, r2 := range *b.Referrers() {
			if iff, ok := r2.(*ssa.If); ok {
				return iff.Block().Succs[0]
			}
		}
	}
	return nil
}

// MakeChanOf resolves a channel value to its MakeChan when it is created in
// the same function (or an enclosing one, through captured variables and
// struct-literal fields).
func MakeChanOf(v ssa.Value) *ssa.MakeChan {
	for i := 0; i < 12; i++ {
		switch x := v.(type) {
		case *ssa.MakeChan:
			return x
		case *ssa.ChangeType:
			v = x.X
		case *ssa.MakeInterface:
			v = x.X
		case *ssa.Phi:
			return nil
		case *ssa.UnOp:
			if x.Op != token.MUL {
				return nil
			}
			if a := ResolveAlloc(x.X); a != nil {
				st := StoresTo(a)
				if len(st) != 1 {
					return nil
				}
				v = st[0].Val
				continue
			}
			if fa, ok := x.X.(*ssa.FieldAddr); ok {
				if a, ok := fa.X.(*ssa.Alloc); ok {
					if f, ok := StructLitFields(a)[fieldName(a.Type(), fa.Field)]; ok {
						v = f
						continue
					}
				}
			}
			return nil
		case *ssa.FreeVar:
			b := FreeVarBinding(x)
			if b == nil {
				return nil
			}
			v = b
		default:
			return nil
		}
	}
	return nil
}

// RecvSites counts the receive sites (plain receives and receive cases of
// selects) on the channel `is` recognises, in fn, its anonymous functions and
// the private helpers the channel is handed to (there: on the parameter).
func RecvSites(fn *ssa.Function, is func(ssa.Value) bool, depth int) int {
	n := 0
	for _, f := range WithAnon(fn) {
		for _, op := range ChanOps(f) {
			if op.Kind == OpSelect {
				for _, st := range op.Select.States {
					if st.Dir == types.RecvOnly && is(st.Chan) {
						n++
					}
				}
			}
			if op.Kind == OpRecv && is(op.Chan) {
				n++
			}
		}
		if depth >= 3 {
			continue
		}
		Instrs(f, func(in ssa.Instruction) {
			ci, ok := in.(ssa.CallInstruction)
			if !ok {
				return
			}
			g := StaticCallee(ci.Common())
			if !PrivateHelper(g) || len(g.Params) != len(ci.Common().Args) {
				return
			}
			for i, a := range ci.Common().Args {
				if is(a) {
					par := g.Params[i]
					n += RecvSites(g, func(v ssa.Value) bool { return Unwrap(v) == ssa.Value(par) }, depth+1)
				}
			}
		})
	}
	return n
}
