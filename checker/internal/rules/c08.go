package rules

import (
	"fmt"
	"go/token"
	"go/types"
	"sort"
	"strings"

	"golang.org/x/tools/go/ssa"

	"mocverif/internal/an"
	"mocverif/internal/core"
)

func init() {
	reg(&core.RuleInfo{Name: "TOK", Props: []string{"C08", "C09"}, Engine: "CHAN", Floor: 8, Confirmed: 12,
		Doc: "merge state lives in 1-slot token channels: filled once, held without blocking, used only by the holder", Run: runTok})
	reg(&core.RuleInfo{Name: "SLOT-BEFORE-BCAST", Props: []string{"C08", "C09"}, Engine: "CFG", Floor: 1, Confirmed: 1,
		Doc: "per-request state is allocated before the message is broadcast to the children", Run: runSlotBeforeBcast})
	reg(&core.RuleInfo{Name: "REQ-COUPD", Props: []string{"C08"}, Engine: "CFG", Floor: 3, Confirmed: 3,
		Doc: "the four per-subscription maps are set and cleared together", Run: runReqCoupd})
	reg(&core.RuleInfo{Name: "MERGE-GUARDS", Props: []string{"C08"}, Engine: "INT", Floor: 4, Confirmed: 5,
		Doc: "before EOSE: order guard, seen-set, Done and counting matcher on every forwarding path", Run: runMergeGuards})
	reg(&core.RuleInfo{Name: "EOSE-GATE", Props: []string{"C08"}, Engine: "CFG", Floor: 2, Confirmed: 3,
		Doc: "EOSE forwarded only behind not-all-done, mark(subID, idx), all-done", Run: runEoseGate})
	reg(&core.RuleInfo{Name: "DISPATCH", Props: []string{"C08", "C09"}, Engine: "TAB", Floor: 4, Confirmed: 4,
		Doc: "each typed outbound handler is called from its own clause and forwards the child's own message", Run: runDispatch})
	reg(&core.RuleInfo{Name: "SLOT-RELEASE", Props: []string{"C09"}, Engine: "CFG", Floor: 2, Confirmed: 2,
		Doc: "every replying path of the OK/COUNT aggregation releases the slot of the same id", Run: runSlotRelease})
	reg(&core.RuleInfo{Name: "COUNT-MAX", Props: []string{"C09"}, Engine: "TAB", Floor: 1, Confirmed: 1,
		Doc: "the COUNT reply is the maximum by Count", Run: runCountMax})
	reg(&core.RuleInfo{Name: "OK-AGG", Props: []string{"C09"}, Engine: "CFG", Floor: 3, Confirmed: 3,
		Doc: "aggregated OK: rejecting iff some child rejected, rejecting reasons first, one reply when all slots are filled", Run: runOkAgg})
}

var mergeStates = []string{"mergeHandlerSessionOKState", "mergeHandlerSessionReqState", "mergeHandlerSessionCountState"}

func isMergeState(t types.Type) bool {
	n := typeNameOf(t)
	for _, s := range mergeStates {
		if n == s {
			return true
		}
	}
	return false
}

func sessionFuncs(c *core.Ctx) []*ssa.Function {
	var out []*ssa.Function
	for _, fn := range libFuncs(c) {
		root := fn
		for root.Parent() != nil {
			root = root.Parent()
		}
		if recvTypeName(root) == "mergeHandlerSession" || an.ShortName(root) == "newMergeHandlerSession" {
			out = append(out, fn)
		}
	}
	return out
}

func runTok(c *core.Ctx) {
	P := c.P
	// (a) fills: each state channel is made with capacity 1 and filled once in the constructor
	ctor := P.Func(P.Root, "newMergeHandlerSession")
	if ctor == nil {
		c.NoAnchor(nil, "newMergeHandlerSession")
		return
	}
	c.CountFuncs(1)
	fills := map[string]int{}
	var lit *ssa.Alloc
	an.Instrs(ctor, func(in ssa.Instruction) {
		if a, ok := in.(*ssa.Alloc); ok && typeNameOf(a.Type()) == "mergeHandlerSession" {
			lit = a
		}
	})
	stateFields := map[string]bool{}
	if lit != nil {
		for f, v := range an.StructLitFields(lit) {
			mc, ok := v.(*ssa.MakeChan)
			if !ok {
				continue
			}
			if ch, ok := mc.Type().Underlying().(*types.Chan); ok && isMergeState(ch.Elem()) {
				k, _ := an.ConstInt(mc.Size)
				stateFields[f] = k == 1
				n := 0
				for _, s := range sendsOn(mc) {
					if !an.InLoop(s.Block()) && s.Parent() == ctor {
						n++
					}
				}
				fills[f] = n
			}
		}
	}
	var fs []string
	okFill := len(stateFields) == 3
	for f, cap1 := range stateFields {
		fs = append(fs, fmt.Sprintf("%s(cap1=%v,fills=%d)", f, cap1, fills[f]))
		if !cap1 || fills[f] != 1 {
			okFill = false
		}
	}
	sort.Strings(fs)
	c.Check(okFill, nil, fname(c, ctor), "fills", P.Pos(ctor.Pos()), "3 state channels of capacity 1, each filled with exactly one token: "+strings.Join(fs, " "), "state channels are not 1-slot tokens filled exactly once: "+strings.Join(fs, " ")+" — two goroutines can hold the same state, or everyone blocks forever")
	// (c)+(d) per holder function
	for _, fn := range sessionFuncs(c) {
		var acq ssa.Instruction
		acqs := map[ssa.Value]bool{}
		borrowers := map[*ssa.Function]bool{}
		an.Instrs(fn, func(in ssa.Instruction) {
			if u, ok := in.(*ssa.UnOp); ok && u.Op == token.ARROW {
				if ch, ok := u.X.Type().Underlying().(*types.Chan); ok && isMergeState(ch.Elem()) {
					if acq == nil {
						acq = u
					}
					acqs[u] = true
				}
			}
			// the token taken through a borrow helper: s, release := borrow(ss.okStat)
			if call, ok := in.(*ssa.Call); ok {
				if chv, ok := borrowCall(call); ok {
					if ch, ok := chv.Type().Underlying().(*types.Chan); ok && isMergeState(ch.Elem()) {
						if acq == nil {
							acq = call
						}
						borrowers[an.StaticCallee(&call.Call)] = true
						for _, r := range *call.Referrers() {
							if ex, ok := r.(*ssa.Extract); ok && ex.Index == 0 {
								acqs[ex] = true
							}
						}
					}
				}
			}
		})
		// (d) state method calls use the acquired value
		var bad []string
		nCalls := 0
		for _, ci := range calls(fn) {
			sc := an.StaticCallee(ci.Common())
			if sc == nil || sc.Signature.Recv() == nil || !isMergeState(sc.Signature.Recv().Type()) {
				continue
			}
			nCalls++
			if !acqs[an.LoadedValue(ci.Common().Args[0])] {
				bad = append(bad, sc.Name()+" on "+an.PathOf(ci.Common().Args[0]))
			}
		}
		if acq == nil && nCalls == 0 {
			continue
		}
		c.CountFuncs(1)
		c.Check(len(bad) == 0, nil, fname(c, fn), "holder/receiver", P.Pos(fn.Pos()), fmt.Sprintf("%d state method call(s), all on the token received in this function", nCalls), "state is used without holding its token: "+strings.Join(bad, "; ")+" — concurrent goroutines race on the merge state")
		if acq == nil {
			continue
		}
		// (c) nothing reachable while holding the token blocks
		var blocking []string
		var callees []*ssa.Function
		for _, ci := range calls(fn) {
			if sc := an.StaticCallee(ci.Common()); sc != nil && P.InModule(sc) {
				// (what runs before the token is taken on every way to it — `if !ss.acquireSlot(ctx) {
				// return }; s := <-ss.okStat` — is not done while holding it)
				if acqIn, isIn := acq.(ssa.Instruction); isIn && an.InstrDominates(ci, acqIn) && !an.InLoop(ci.Block()) {
					continue
				}
				if _, isDefer := ci.(*ssa.Defer); !isDefer && !borrowers[sc] {
					callees = append(callees, sc)
				}
			}
		}
		for _, g := range an.RefClosure(callees, P.InModule) {
			for _, op := range an.ChanOps(g) {
				if op.Kind == an.OpSend || op.Kind == an.OpRecv || (op.Kind == an.OpSelect && op.Select.Blocking) {
					blocking = append(blocking, fname(c, g))
				}
			}
		}
		// explicit put-backs of the token are the release, not something done while holding it
		ownRelease := map[ssa.Instruction]bool{}
		if u, isU := acq.(*ssa.UnOp); isU {
			if ok, _ := tokenExplicit(fn, u); ok {
				for _, r := range explicitReleases(fn, u) {
					ownRelease[r] = true
					// … and the state must not be touched after it went back
					forwardScan(r, func(in ssa.Instruction) bool {
						if in == ssa.Instruction(u) {
							return true
						}
						if ci, isCI := in.(ssa.CallInstruction); isCI {
							if sc := an.StaticCallee(ci.Common()); sc != nil && sc.Signature.Recv() != nil && isMergeState(sc.Signature.Recv().Type()) && acqs[an.LoadedValue(ci.Common().Args[0])] {
								blocking = append(blocking, "state method "+sc.Name()+" called after the token was put back ("+P.Pos(in.Pos())+")")
							}
						}
						return false
					})
				}
			}
		}
		for _, op := range an.ChanOps(fn) {
			if op.Instr == acq || ownRelease[op.Instr] {
				continue
			}
			if op.Kind == an.OpSend || op.Kind == an.OpRecv || (op.Kind == an.OpSelect && op.Select.Blocking) {
				blocking = append(blocking, "own "+P.Pos(op.Instr.Pos()))
			}
		}
		c.Check(len(blocking) == 0, nil, fname(c, fn), "holder/non-blocking", P.Pos(acq.Pos()), "nothing reachable between acquire and release blocks", "a blocking operation is reachable while the state token is held ("+strings.Join(blocking, ", ")+"): the other direction of the session stalls behind it")
	}
}

func isEmptyStruct(t types.Type) bool {
	st, ok := t.Underlying().(*types.Struct)
	return ok && st.NumFields() == 0
}

func runSlotBeforeBcast(c *core.Ctx) {
	P := c.P
	// the inbound loop: a mergeHandlerSession method receiving from <-chan ClientMsg
	var loop *ssa.Function
	for _, fn := range sessionFuncs(c) {
		for _, p := range fn.Params {
			if isClientMsgChan(p.Type()) && fn.Parent() == nil {
				loop = fn
			}
		}
	}
	if loop == nil {
		c.NoAnchor(nil, "merge inbound loop")
		return
	}
	c.CountFuncs(1)
	touchesState := func(f *ssa.Function) bool {
		for _, g := range an.RefClosure([]*ssa.Function{f}, P.InModule) {
			for _, ci := range calls(g) {
				if sc := an.StaticCallee(ci.Common()); sc != nil && sc.Signature.Recv() != nil && isMergeState(sc.Signature.Recv().Type()) {
					return true
				}
			}
		}
		return false
	}
	sendsToChildren := func(f *ssa.Function) bool {
		for _, g := range an.RefClosure([]*ssa.Function{f}, P.InModule) {
			for _, ci := range calls(g) {
				for _, a := range ci.Common().Args {
					if strings.Contains(an.PathOf(a), "recv.recvs") && isClientMsgChan(a.Type()) {
						return true
					}
				}
			}
		}
		return false
	}
	var alloc, bcast *ssa.Call
	for _, ci := range calls(loop) {
		call, ok := ci.(*ssa.Call)
		if !ok {
			continue
		}
		sc := an.StaticCallee(&call.Call)
		if sc == nil || !P.InModule(sc) {
			continue
		}
		if touchesState(sc) {
			alloc = call
		}
		if sendsToChildren(sc) {
			bcast = call
		}
		// the fan-out loop written out in place: the send helper is handed a child's channel
		for _, a := range call.Call.Args {
			if strings.Contains(an.PathOf(a), "recv.recvs") && isClientMsgChan(a.Type()) {
				bcast = call
			}
		}
	}
	good := alloc != nil && bcast != nil && an.InstrDominates(alloc, bcast)
	detail := "slot allocation or broadcast call not found"
	if alloc != nil && bcast != nil {
		detail = fmt.Sprintf("%s dominates %s: %v", an.StaticCallee(&alloc.Call).Name(), an.StaticCallee(&bcast.Call).Name(), good)
		// the broadcast message is the one the allocation step returned
		// (… or, when that step answers nothing, the very message it was handed)
		sameMsg := alloc.Type() != nil && alloc.Call.Signature().Results().Len() == 0 && len(alloc.Call.Args) > 0 &&
			bcast.Call.Args[len(bcast.Call.Args)-1] == alloc.Call.Args[len(alloc.Call.Args)-1]
		if good && an.PathOf(bcast.Call.Args[len(bcast.Call.Args)-1]) != an.PathOf(alloc) && !sameMsg {
			good = false
			detail += "; but the broadcast message is not the allocation step's result"
		}
	}
	c.Check(good, nil, fname(c, loop), "order", P.Pos(loop.Pos()), "state is allocated synchronously before the message reaches any child ("+detail+")", "a child can answer before the per-request state exists: its reply finds no slot and is dropped ("+detail+")")
}

func runReqCoupd(c *core.Ctx) {
	P := c.P
	maps := []string{"eose", "lastEvent", "seen", "matcher"}
	set := P.Method(P.Root, "mergeHandlerSessionReqState", "SetSubID")
	clear := P.Method(P.Root, "mergeHandlerSessionReqState", "ClearSubID")
	all := P.Method(P.Root, "mergeHandlerSessionReqState", "AllEOSE")
	if set == nil || clear == nil || all == nil {
		c.NoAnchor(nil, "mergeHandlerSessionReqState.SetSubID / ClearSubID / AllEOSE")
		return
	}
	c.CountFuncs(3)
	// SetSubID: MapUpdate on each of the four maps keyed by the subID parameter, same block
	{
		key := "p:" + set.Params[1].Name()
		got := map[string]*ssa.MapUpdate{}
		an.Instrs(set, func(in ssa.Instruction) {
			if mu, ok := in.(*ssa.MapUpdate); ok && an.PathOf(mu.Key) == key {
				for _, m := range maps {
					if an.PathOf(mu.Map) == "recv."+m {
						got[m] = mu
					}
				}
			}
		})
		miss := []string{}
		for _, m := range maps {
			if got[m] == nil {
				miss = append(miss, m)
			} else if !controlEquivalent(set, got[maps[0]], got[m]) && got[maps[0]] != nil {
				miss = append(miss, m+"(not control-equivalent)")
			}
		}
		// fresh values
		okVals := got["eose"] != nil && strings.HasPrefix(an.PathOf(got["eose"].Value), "make:slice") &&
			got["seen"] != nil && strings.HasPrefix(an.PathOf(got["seen"].Value), "make:map") &&
			got["matcher"] != nil && (strings.Contains(an.PathOf(got["matcher"].Value), "NewReqFiltersEventLimitMatcher(p:"+set.Params[2].Name()+")") ||
			matcherFromFilters(P, got["matcher"].Value, set.Params[2])) &&
			got["lastEvent"] != nil && an.IsNilConst(got["lastEvent"].Value)
		c.Check(len(miss) == 0 && okVals, nil, fname(c, set), "set(4 maps)", P.Pos(set.Pos()), "a REQ (re)initialises all four per-subscription maps together: fresh EOSE flags, no last event, empty seen-set, a matcher from the REQ's filters",
			fmt.Sprintf("a REQ does not reset all four per-subscription maps together (missing: %v, fresh values: %v): state of a previous use of the id leaks into the new subscription", miss, okVals))
	}
	// deletes of the subscription's entry, performed by fn itself or by a method of the
	// state it calls (read in fn's terms), at places satisfying within
	delKeys := func(fn *ssa.Function, within func(*ssa.BasicBlock) bool) map[string]*ssa.Call {
		got := map[string]*ssa.Call{}
		key := "p:" + fn.Params[1].Name()
		an.Instrs(fn, func(in ssa.Instruction) {
			call, ok := in.(*ssa.Call)
			if !ok || !within(call.Block()) {
				return
			}
			record := func(mp, kp string, at *ssa.Call) {
				if kp != key {
					return
				}
				for _, m := range maps {
					if mp == "recv."+m {
						got[m] = at
					}
				}
			}
			if b, ok := call.Call.Value.(*ssa.Builtin); ok {
				if b.Name() == "delete" {
					record(an.PathOf(call.Call.Args[0]), an.PathOf(call.Call.Args[1]), call)
				}
				return
			}
			if g := an.StaticCallee(&call.Call); g != nil && P.InModule(g) && g != fn && len(g.Params) == len(call.Call.Args) {
				an.Instrs(g, func(gin ssa.Instruction) {
					if gc, ok := gin.(*ssa.Call); ok {
						if b, ok := gc.Call.Value.(*ssa.Builtin); ok && b.Name() == "delete" {
							record(an.PathOfIn(gc.Call.Args[0], &call.Call), an.PathOfIn(gc.Call.Args[1], &call.Call), call)
						}
					}
				})
			}
		})
		return got
	}
	{
		got := delKeys(clear, func(*ssa.BasicBlock) bool { return true })
		c.Check(len(got) == 4, nil, fname(c, clear), "clear(4 maps)", P.Pos(clear.Pos()), "CLOSE deletes the subscription from all four maps", fmt.Sprintf("CLOSE deletes the subscription from %d of 4 maps: a later child message finds half a state (nil map / nil matcher)", len(got)))
	}
	{
		// completion branch: guarded by "no false among the flags"
		got := delKeys(all, func(b *ssa.BasicBlock) bool {
			for _, g := range an.Guards(all, b) {
				v, pol := stripNot(g.V, g.True)
				if call, ok := v.(*ssa.Call); ok && strings.HasPrefix(an.CalleeName(&call.Call), "slices.Contains") && !pol {
					return true
				}
			}
			return false
		})
		c.Check(len(got) == 4, nil, fname(c, all), "complete(4 maps)", P.Pos(all.Pos()), "when every child has sent EOSE the subscription is removed from all four maps", fmt.Sprintf("on completion only %d of 4 maps are cleared", len(got)))
	}
}

func runMergeGuards(c *core.Ctx) {
	P := c.P
	fn := P.Method(P.Root, "mergeHandlerSessionReqState", "IsSendableEventMsg")
	if fn == nil {
		c.NoAnchor(nil, "mergeHandlerSessionReqState.IsSendableEventMsg")
		return
	}
	c.CountFuncs(1)
	msg := ""
	for _, p := range fn.Params {
		if typeNameOf(p.Type()) == "ServerEventMsg" {
			msg = "p:" + p.Name()
		}
	}
	sub := msg + ".SubscriptionID"
	// the paths on which the verdict may be true: the post-EOSE pass-through (all-done
	// answered true) and the forwarding paths; what every forwarding path has tested is
	// what guards forwarding — however the function spells its returns
	truePaths, okp := an.ResultPathsDeep(fn, 0, true)
	if !okp {
		c.Unknown(nil, fname(c, fn), "returns", P.Pos(fn.Pos()), "too many paths")
		return
	}
	c.CountPaths(len(truePaths))
	isCallTo := func(v ssa.Value, suffix string) *ssa.Call {
		if call, ok := v.(*ssa.Call); ok && strings.HasSuffix(an.CalleeName(&call.Call), suffix) {
			return call
		}
		return nil
	}
	var fwd []an.CondPath
	for _, tp := range truePaths {
		if !tp.Has(func(g an.Cond) bool { return g.True && isCallTo(g.V, "ReqState).AllEOSE") != nil }) {
			fwd = append(fwd, tp)
		}
	}
	if len(fwd) == 0 {
		c.Bad(nil, fname(c, fn), "returns", P.Pos(fn.Pos()), "no forwarding path besides the post-EOSE pass-through")
		return
	}
	// (a) order guard
	{
		var cmpCall *ssa.Call
		var cmpOcc an.Occ
		an.Region(fn, nil, func(o an.Occ) {
			if call, ok := o.In.(*ssa.Call); ok && strings.HasPrefix(an.CalleeName(&call.Call), "cmp.Compare") {
				cmpCall, cmpOcc = call, o
			}
		})
		good := false
		detail := "no comparison of the last forwarded event's created_at with the new one"
		if cmpCall != nil {
			a, b := cmpOcc.Path(cmpCall.Call.Args[0]), cmpOcc.Path(cmpCall.Call.Args[1])
			last := "recv.lastEvent[" + sub + "].Event.CreatedAt"
			cur := msg + ".Event.CreatedAt"
			fr := an.Frame{IsSubject: func(v ssa.Value) bool { return v == ssa.Value(cmpCall) }, Term: func(v ssa.Value) (int64, bool) { return an.ConstInt(v) }}
			// forwarded under which comparison results
			fwdSet := an.Empty()
			skipOK := true
			for _, p := range fwd {
				if p.Visits(cmpCall.Block()) {
					fwdSet = fwdSet.Union(p.Meaning(fr))
					continue
				}
				// the comparison is skipped only when there is no last event
				if !p.Has(func(g an.Cond) bool {
					is, nn := nilTestPath(g, "recv.lastEvent["+sub+"]")
					return is && g.True != nn
				}) {
					skipOK = false
				}
			}
			// Compare(last, cur) < 0 ⇔ cur newer than last ⇒ must be refused
			// cmp.Compare answers -1, 0 or +1 only
			fwdSet = fwdSet.Intersect(an.Range(-1, 1))
			switch {
			case a == last && b == cur:
				good = fwdSet.Equal(an.Range(0, 1))
				detail = "forwarded iff cmp.Compare(last, new) ∈ " + fwdSet.String()
			case a == cur && b == last:
				good = fwdSet.Equal(an.Range(-1, 0))
				detail = "forwarded iff cmp.Compare(new, last) ∈ " + fwdSet.String()
			default:
				detail = "compares " + a + " with " + b
			}
			if !skipOK {
				good = false
				detail += "; a forwarding path skips the comparison although a last event exists"
			}
		}
		if cmpCall == nil {
			// compared directly (`last.CreatedAt < new.CreatedAt`): forwarded iff last − new ≥ 0
			last := "recv.lastEvent[" + sub + "].Event.CreatedAt"
			fr := an.SymFrame(last, msg+".Event.CreatedAt")
			fwdSet := an.Empty()
			skipOK, compared := true, false
			for _, p := range fwd {
				if p.Has(func(g an.Cond) bool {
					is, nn := nilTestPath(g, "recv.lastEvent["+sub+"]")
					return is && g.True != nn
				}) {
					continue // no last event: nothing to compare with
				}
				m := p.Meaning(fr)
				if m.Equal(an.Full()) {
					skipOK = false
				} else {
					compared = true
				}
				fwdSet = fwdSet.Union(m)
			}
			if compared {
				good = skipOK && fwdSet.Equal(an.Range(0, an.PosInf))
				detail = "forwarded iff last.created_at − new.created_at ∈ " + fwdSet.String()
				if !skipOK {
					detail += "; a forwarding path skips the comparison although a last event exists"
				}
			}
		}
		c.Check(good, nil, fname(c, fn), "order-guard", P.Pos(fn.Pos()), "an event newer than the last forwarded one is refused ("+detail+"): the stream is non-increasing in created_at", "the order guard does not refuse exactly the events newer than the last forwarded one: "+detail)
	}
	// (b) seen-set consulted and updated with the event id
	{
		seenKey := "recv.seen[" + sub + "][" + msg + ".Event.ID]"
		// the subscription's seen set held in a local: the map looked up from recv.seen[sub], or the
		// fresh one that is stored there when the set is reset (`seen = make(…); stat.seen[sub] = seen`)
		var isSeenSet func(v ssa.Value, depth int) bool
		isSeenSet = func(v ssa.Value, depth int) bool {
			v = an.Unwrap(v)
			if v == nil || depth > 4 {
				return false
			}
			if an.PathOf(v) == "recv.seen["+sub+"]" {
				return true
			}
			switch x := v.(type) {
			case *ssa.Extract:
				if lk, isLk := x.Tuple.(*ssa.Lookup); isLk && x.Index == 0 {
					return an.PathOf(lk.X) == "recv.seen" && an.PathOf(lk.Index) == sub
				}
			case *ssa.MakeMap:
				stored := false
				if x.Referrers() != nil {
					for _, r := range *x.Referrers() {
						if mu, isMU := r.(*ssa.MapUpdate); isMU && mu.Value == ssa.Value(x) && an.PathOf(mu.Map) == "recv.seen" && an.PathOf(mu.Key) == sub {
							stored = true
						}
					}
				}
				return stored
			case *ssa.Phi:
				for _, e := range x.Edges {
					if e != ssa.Value(x) && !isSeenSet(e, depth+1) {
						return false
					}
				}
				return true
			}
			return false
		}
		// (a forwarding path that replaces the seen-set by a fresh one — the event opens an older
		// timestamp — has nothing to consult: no id forwarded at the previous timestamp can equal this one)
		var resetBlocks []*ssa.BasicBlock
		an.Region(fn, nil, func(o an.Occ) {
			if mu, ok := o.In.(*ssa.MapUpdate); ok && o.Path(mu.Map) == "recv.seen" && o.Path(mu.Key) == sub && strings.HasPrefix(o.Path(mu.Value), "make:map") {
				resetBlocks = append(resetBlocks, mu.Block())
			}
		})
		var consultPaths []an.CondPath
		for _, p := range fwd {
			resets := false
			for _, b := range resetBlocks {
				if p.Visits(b) {
					resets = true
				}
			}
			if !resets {
				consultPaths = append(consultPaths, p)
			}
		}
		consulted := len(consultPaths) > 0 && an.AllHave(consultPaths, func(g an.Cond) bool {
			p := g.Path(g.V)
			if (p == seenKey || p == "ok("+seenKey+")") && !g.True { // map[id]bool value, or presence in a map[id]struct{}
				return true
			}
			if g.True || len(g.Chain) > 0 {
				return false
			}
			var lk *ssa.Lookup
			switch x := g.V.(type) {
			case *ssa.Lookup:
				lk = x
			case *ssa.Extract:
				if l2, isL := x.Tuple.(*ssa.Lookup); isL && x.Index == 1 {
					lk = l2
				}
			}
			return lk != nil && an.PathOf(lk.Index) == msg+".Event.ID" && isSeenSet(lk.X, 0)
		})
		var upd []*ssa.BasicBlock
		an.Region(fn, nil, func(o an.Occ) {
			if mu, ok := o.In.(*ssa.MapUpdate); ok && (o.Path(mu.Map) == "recv.seen["+sub+"]" || (len(o.Chain) == 0 && isSeenSet(mu.Map, 0))) && o.Path(mu.Key) == msg+".Event.ID" && (isConstBool(mu.Value, true) || isEmptyStruct(mu.Value.Type())) {
				upd = append(upd, mu.Block())
			}
		})
		updated := len(upd) > 0
		for _, p := range fwd {
			on := false
			for _, b := range upd {
				if p.Visits(b) {
					on = true
				}
			}
			if !on {
				updated = false
			}
		}
		c.Check(consulted && updated, nil, fname(c, fn), "seen-set", P.Pos(fn.Pos()), "forwarded only if the id was not seen at this timestamp, and then recorded", fmt.Sprintf("duplicate suppression incomplete (seen-set consulted: %v, updated on the forwarding path: %v): the same event from two children is forwarded twice", consulted, updated))
	}
	// (c) Done consulted, LimitMatch decides
	{
		matcher := "recv.matcher[" + sub + "]"
		onMatcher := func(g an.Cond, method string) *ssa.Call {
			call, ok := g.V.(*ssa.Call)
			if !ok || !call.Call.IsInvoke() || g.Path(call.Call.Value) != matcher || call.Call.Method.Name() != method {
				return nil
			}
			return call
		}
		done := an.AllHave(fwd, func(g an.Cond) bool { return onMatcher(g, "Done") != nil && !g.True })
		lm := an.AllHave(fwd, func(g an.Cond) bool {
			call := onMatcher(g, "LimitMatch")
			return call != nil && g.True && g.Path(call.Call.Args[0]) == msg+".Event"
		})
		plain := false
		for _, p := range fwd {
			if p.Has(func(g an.Cond) bool { return onMatcher(g, "Match") != nil }) {
				plain = true
			}
		}
		c.Check(done && lm && !plain, nil, fname(c, fn), "limit+filter", P.Pos(fn.Pos()), "forwarded only if the REQ's matcher is not Done and its counting LimitMatch accepts the event",
			fmt.Sprintf("Done()==false guard: %v, LimitMatch(msg.Event)==true guard: %v, non-counting Match used: %v — events that do not match the REQ or exceed its limit are forwarded", done, lm, plain))
	}
	// (d) a child that already sent EOSE is not merged
	{
		okIs := an.AllHave(fwd, func(g an.Cond) bool {
			if call := isCallTo(g.V, "ReqState).IsEOSE"); call != nil {
				return !g.True && g.Path(call.Call.Args[1]) == sub
			}
			// the flag read in place: this child's entry of the subscription's EOSE flags is false
			return !g.True && g.Path(g.V) == "recv.eose["+sub+"][*]"
		})
		c.Check(okIs, nil, fname(c, fn), "child-not-done", P.Pos(fn.Pos()), "stored events of a child that already sent its EOSE are not merged", "events of a child that already sent EOSE are merged before the overall EOSE")
	}
}

// nilTestPath: like nilTest, for a condition that may have been tested inside a helper.
func nilTestPath(g an.Cond, ap string) (bool, bool) {
	b, ok := g.V.(*ssa.BinOp)
	if !ok || (b.Op != token.EQL && b.Op != token.NEQ) {
		return false, false
	}
	var other ssa.Value
	if an.IsNilConst(b.Y) {
		other = b.X
	} else if an.IsNilConst(b.X) {
		other = b.Y
	} else {
		return false, false
	}
	if g.Path(other) != ap {
		return false, false
	}
	return true, b.Op == token.NEQ
}

func mustPaths(fn *ssa.Function, b *ssa.BasicBlock) []an.Path {
	ps, _ := an.PathsTo(fn, b, 2048)
	var out []an.Path
	for _, p := range ps {
		if an.Feasible(p) {
			out = append(out, p)
		}
	}
	return out
}

// outHandler: the mergeHandlerSession method that treats one type of child
// reply. msg is the typed message inside it — its *ServerXMsg parameter, or
// the unchecked assertion of the envelope's .Msg — and idx the access path of
// the child's index (envelope.Idx, or an int parameter fed with it).
type outHandler struct {
	fn  *ssa.Function
	msg ssa.Value
	idx string
}

// outboundInfo finds the handlers through the dispatcher: the session method
// that tells the reply types apart (type switch / comma-ok assertions on the
// envelope's .Msg) and calls one session method per type.
func outboundInfo(c *core.Ctx) (disp *ssa.Function, hs map[string]*outHandler) {
	hs = map[string]*outHandler{}
	sess := sessionFuncs(c)
	isSess := map[*ssa.Function]bool{}
	for _, f := range sess {
		isSess[f] = true
	}
	best := 0
	for _, fn := range sess {
		if fn.Parent() != nil {
			continue
		}
		found := map[string]*outHandler{}
		for _, ci := range calls(fn) {
			call, ok := ci.(*ssa.Call)
			if !ok {
				continue
			}
			h := an.StaticCallee(&call.Call)
			if h == nil || !isSess[h] || h == fn {
				continue
			}
			for _, g := range an.Guards(fn, call.Block()) {
				ex, ok := g.V.(*ssa.Extract)
				if !ok || !g.True || ex.Index != 1 {
					continue
				}
				ta, ok := ex.Tuple.(*ssa.TypeAssert)
				// (the child's message: the Msg field of the hand-over record, or the dispatcher's own
				// ServerMsg parameter when the record has been unpacked by the caller)
				if !ok || !(strings.HasSuffix(an.PathOf(ta.X), ".Msg") || typeNameOf(ta.X.Type()) == "ServerMsg") {
					continue
				}
				t := typeNameOf(ta.AssertedType)
				if !strings.HasPrefix(t, "Server") {
					continue
				}
				oh := &outHandler{fn: h}
				// typed parameter, or unchecked assertion inside the handler
				for i, p := range h.Params {
					if typeNameOf(p.Type()) == t {
						oh.msg = p
					}
					if bt, isB := p.Type().Underlying().(*types.Basic); isB && bt.Info()&types.IsInteger != 0 && i < len(call.Call.Args) && (strings.HasSuffix(an.PathOf(call.Call.Args[i]), ".Idx") || isIntParam(fn, call.Call.Args[i])) {
						oh.idx = "p:" + p.Name()
					}
					if strings.HasSuffix(typeNameOf(p.Type()), "SendMsg") {
						oh.idx = "p:" + p.Name() + ".Idx"
					}
				}
				if oh.msg == nil {
					an.Instrs(h, func(in ssa.Instruction) {
						if ta2, ok := in.(*ssa.TypeAssert); ok && !ta2.CommaOk && typeNameOf(ta2.AssertedType) == t && (strings.HasSuffix(an.PathOf(ta2.X), ".Msg") || typeNameOf(ta2.X.Type()) == "ServerMsg") {
							oh.msg = ta2
						}
					})
				}
				if oh.msg != nil {
					found[t] = oh
				}
			}
		}
		if len(found) > best {
			best, disp, hs = len(found), fn, found
		}
	}
	return disp, hs
}

// isIntParam: v is an integer parameter of fn (the child index handed down as an argument)
func isIntParam(fn *ssa.Function, v ssa.Value) bool {
	p, ok := v.(*ssa.Parameter)
	if !ok || p.Parent() != fn {
		return false
	}
	bt, isB := p.Type().Underlying().(*types.Basic)
	return isB && bt.Info()&types.IsInteger != 0
}

// outboundHandlers: the handler function per reply type.
func outboundHandlers(c *core.Ctx) map[string]*ssa.Function {
	_, hs := outboundInfo(c)
	out := map[string]*ssa.Function{}
	for t, h := range hs {
		out[t] = h.fn
	}
	return out
}

// replyEdge: one way a handler hands back a non-nil reply: a return of the
// value, or — with a result variable (`var out *T; if … { out = m }; return
// out`) — the edge on which the variable got it.
type replyEdge struct {
	val ssa.Value
	at  *ssa.BasicBlock
	pos token.Pos
}

func replyEdges(fn *ssa.Function) []replyEdge {
	var out []replyEdge
	for _, rb := range an.ReturnBlocks(fn) {
		r := an.LastInstr(rb).(*ssa.Return)
		rv := an.ReturnValues(r)
		if len(rv) == 0 || an.IsNilConst(rv[0]) {
			continue
		}
		if ph, ok := rv[0].(*ssa.Phi); ok {
			for i, e := range ph.Edges {
				if !an.IsNilConst(e) {
					out = append(out, replyEdge{e, ph.Block().Preds[i], r.Pos()})
				}
			}
			continue
		}
		out = append(out, replyEdge{rv[0], rb, r.Pos()})
	}
	return out
}

func runEoseGate(c *core.Ctx) {
	P := c.P
	fn := outboundHandlers(c)["ServerEOSEMsg"]
	if fn == nil {
		c.NoAnchor(nil, "merge handler of child EOSE messages")
		return
	}
	c.CountFuncs(1)
	// roles by effect
	var mark, allDone *ssa.Function
	for _, f := range P.ModFuncs {
		if recvTypeName(f) != "mergeHandlerSessionReqState" || f.Parent() != nil {
			continue
		}
		storesTrue := false
		an.Region(f, nil, func(o an.Occ) {
			if st, ok := o.In.(*ssa.Store); ok && isConstBool(an.Unwrap(o.Resolve(st.Val)), true) && strings.HasPrefix(o.Path(st.Addr), "recv.eose[") {
				storesTrue = true
			}
		})
		if storesTrue {
			mark = f
		}
		// all-done: a verdict about one subscription computed from its flags
		if f.Signature.Results().Len() == 1 && len(f.Params) == 2 {
			readsFlags := false
			an.Instrs(f, func(in ssa.Instruction) {
				if lk, ok := in.(*ssa.Lookup); ok && an.PathOf(lk.X) == "recv.eose" && an.PathOf(lk.Index) == "p:"+f.Params[1].Name() {
					readsFlags = true
				}
			})
			if readsFlags {
				allDone = f
			}
		}
	}
	if mark == nil || allDone == nil {
		c.Unknown(nil, fname(c, fn), "roles", P.Pos(fn.Pos()), "mark / all-done methods of the REQ state not recognised by effect")
		return
	}
	_, infos := outboundInfo(c)
	m := infos["ServerEOSEMsg"].msg
	idxPath := infos["ServerEOSEMsg"].idx
	subID := an.PathOf(m) + ".SubscriptionID"
	// the gate sequence (all-done? → mark → all-done?) in the handler itself or in a private
	// helper it delegates the decision to (`if !s.completeEOSE(id, idx) { return nil }`)
	var adOcc, mkOcc []an.Occ
	an.Region(fn, func(g *ssa.Function) bool { return g == allDone || g == mark }, func(o an.Occ) {
		if call, ok := o.In.(*ssa.Call); ok {
			switch an.StaticCallee(&call.Call) {
			case allDone:
				adOcc = append(adOcc, o)
			case mark:
				mkOcc = append(mkOcc, o)
			}
		}
	})
	var ret *ssa.BasicBlock
	for _, re := range replyEdges(fn) {
		if ret != nil {
			c.Bad(nil, fname(c, fn), "gate", P.Pos(fn.Pos()), "more than one path forwards an EOSE")
			return
		}
		ret = re.at
		c.Check(re.val == m, nil, fname(c, fn), "forwarded-value", P.Pos(re.pos), "the forwarded EOSE is the child's own message (its subscription id)", "the forwarded EOSE is not the child's own message")
	}
	good := ret != nil && len(adOcc) == 2 && len(mkOcc) == 1
	detail := fmt.Sprintf("all-done calls: %d, mark calls: %d", len(adOcc), len(mkOcc))
	// the gate folded into the marking method: `SetEOSE(id, idx) bool` answers "forward" — the
	// subscription is still tracked (an entry of the flag table exists: all-done deletes it when it
	// answers true and answers true for what is not tracked, so "tracked" is "not already complete"),
	// this child's flag is set behind that test, and all-done is true now
	if !good && ret != nil && len(adOcc) == 0 && len(mkOcc) == 1 && boolResultIdx(mark) == 0 && mark.Signature.Results().Len() == 1 {
		mk := mkOcc[0].In.(*ssa.Call)
		argsOK := len(mk.Call.Args) == 3 && mkOcc[0].Path(mk.Call.Args[1]) == subID && mkOcc[0].Path(mk.Call.Args[2]) == idxPath
		idParam := "p:" + mark.Params[1].Name()
		var second *ssa.Call
		for _, call := range callsTo(mark, allDone) {
			if an.PathOf(call.Call.Args[1]) == idParam {
				second = call
			}
		}
		var markStore *ssa.Store
		an.Instrs(mark, func(in ssa.Instruction) {
			if st, ok := in.(*ssa.Store); ok && isConstBool(an.Unwrap(st.Val), true) && strings.HasPrefix(an.PathOf(st.Addr), "recv.eose["+idParam+"]") {
				markStore = st
			}
		})
		tracked := func(g an.Cond) bool {
			g = an.NormCond(g)
			return g.True && an.PathOf(g.V) == "ok(recv.eose["+idParam+"])"
		}
		tps, okp := an.ResultPaths(mark, 0, true)
		e1 := okp && len(tps) > 0 && an.AllHave(tps, tracked)
		e2 := second != nil && okp && an.AllHave(tps, func(g an.Cond) bool { return g.V == ssa.Value(second) && g.True })
		order := markStore != nil && second != nil && an.InstrDominates(markStore, second)
		markGuard := false
		if markStore != nil {
			for _, g := range an.Guards(mark, markStore.Block()) {
				if tracked(g) {
					markGuard = true
				}
			}
		}
		fwdOnTrue := false
		for _, g := range an.Guards(fn, ret) {
			v, pol := stripNot(g.V, g.True)
			if v == ssa.Value(mk) && pol && len(mkOcc[0].Chain) == 0 {
				fwdOnTrue = true
			}
		}
		ok := argsOK && e1 && e2 && order && markGuard && fwdOnTrue
		c.Check(ok, nil, fname(c, fn), "gate", P.Pos(fn.Pos()), "EOSE is forwarded only on the marking method's 'true', which it gives only when the subscription is still tracked, this child's flag has been set, and all flags are set now — not before every child and not twice",
			fmt.Sprintf("EOSE gate shape broken (gate folded into %s: args ok: %v; every 'true' tests that the subscription is still tracked: %v; … and all-done afterwards: %v; flag set before that test: %v and only when tracked: %v; forwarded only on 'true': %v): the EOSE can be forwarded early, twice, or after CLOSE", mark.Name(), argsOK, e1, e2, order, markGuard, fwdOnTrue))
		return
	}
	if good {
		ads := []*ssa.Call{adOcc[0].In.(*ssa.Call), adOcc[1].In.(*ssa.Call)}
		mk := mkOcc[0].In.(*ssa.Call)
		host := mk.Parent()
		if ads[0].Parent() != host || ads[1].Parent() != host {
			good = false
			detail = "the all-done tests and the mark are spread over different functions"
		} else {
			first, second := ads[0], ads[1]
			fo, so := adOcc[0], adOcc[1]
			if !an.InstrDominates(first, second) {
				first, second = second, first
				fo, so = so, fo
			}
			argsOK := fo.Path(first.Call.Args[1]) == subID && so.Path(second.Call.Args[1]) == subID &&
				mkOcc[0].Path(mk.Call.Args[1]) == subID && mkOcc[0].Path(mk.Call.Args[2]) == idxPath
			order := an.InstrDominates(first, mk) && an.InstrDominates(mk, second)
			e1, e2 := false, false
			if host == fn {
				for _, g := range an.Guards(fn, ret) {
					if g.V == ssa.Value(first) && !g.True {
						e1 = true
					}
					if g.V == ssa.Value(second) && g.True {
						e2 = true
					}
				}
			} else if tps, ok := an.ResultPaths(host, boolResultIdx(host), true); boolResultIdx(host) >= 0 && ok && len(tps) > 0 && len(mkOcc[0].Chain) > 0 {
				// the helper answers "forward" only with first=false and second=true …
				e1 = an.AllHave(tps, func(g an.Cond) bool { return g.V == ssa.Value(first) && !g.True })
				e2 = an.AllHave(tps, func(g an.Cond) bool { return g.V == ssa.Value(second) && g.True })
				// … and the handler forwards only on that answer
				fwdOnTrue := false
				top := mkOcc[0].Chain[0]
				for _, g := range an.Guards(fn, ret) {
					v, pol := stripNot(g.V, g.True)
					if v == ssa.Value(top) && pol {
						fwdOnTrue = true
					}
					// (the verdict as one of several results: `summary, ok := ss.setEOSE(id, idx); if !ok { return nil }`)
					if ex, isEx := v.(*ssa.Extract); isEx && ex.Tuple == ssa.Value(top) && ex.Index == boolResultIdx(host) && pol {
						fwdOnTrue = true
					}
				}
				if len(mkOcc[0].Chain) != 1 || !fwdOnTrue {
					e1, e2 = false, false
				}
			}
			// the mark itself runs only when not already all-done
			markGuard := false
			for _, g := range an.Guards(host, mk.Block()) {
				if g.V == ssa.Value(first) && !g.True {
					markGuard = true
				}
			}
			good = argsOK && order && e1 && e2 && markGuard
			detail = fmt.Sprintf("args(subID, idx) ok: %v; order all-done→mark→all-done: %v; forwarded on (first=false: %v, second=true: %v); mark behind first=false: %v", argsOK, order, e1, e2, markGuard)
		}
	}
	c.Check(good, nil, fname(c, fn), "gate", P.Pos(fn.Pos()), "EOSE is forwarded only when: not already complete, this child's flag set, now complete — so not before every child and not twice", "EOSE gate shape broken ("+detail+"): the EOSE can be forwarded early, twice, or never")
}

func runDispatch(c *core.Ctx) {
	P := c.P
	disp, infos := outboundInfo(c)
	hs := outboundHandlers(c)
	if disp == nil || len(hs) < 3 {
		c.NoAnchor(nil, "merge outbound dispatcher")
		return
	}
	c.CountFuncs(1 + len(hs))
	var names []string
	for t := range hs {
		names = append(names, t)
	}
	sort.Strings(names)
	for _, t := range names {
		h := hs[t]
		cs := callsTo(disp, h)
		good := len(cs) == 1
		if good {
			// guarded by a successful assertion of msg.Msg to the same type
			good = false
			for _, g := range an.Guards(disp, cs[0].Block()) {
				if ex, ok := g.V.(*ssa.Extract); ok && g.True && ex.Index == 1 {
					if ta, ok := ex.Tuple.(*ssa.TypeAssert); ok && typeNameOf(ta.AssertedType) == t && (strings.HasSuffix(an.PathOf(ta.X), ".Msg") || typeNameOf(ta.X.Type()) == "ServerMsg") {
						good = true
					}
				}
			}
		}
		// called from nowhere else
		for _, fn := range libFuncs(c) {
			if fn != disp && len(callsTo(fn, h)) > 0 {
				good = false
			}
		}
		props := []string{"C08"}
		if t == "ServerOKMsg" || t == "ServerCountMsg" {
			props = []string{"C09"}
		}
		c.CountSites(1)
		c.Check(good, props, fname(c, disp), "clause["+t+"]", P.Pos(disp.Pos()), h.Name()+" (which takes the reply as *"+t+") is called only from the *"+t+" clause", h.Name()+" takes the reply as *"+t+" but is not called exclusively from the clause that established that type: a panic kills the session")
	}
	// the dispatcher changes the merge state (EOSE flags, cursor, seen-set, reply slots): it runs
	// once per message taken from the children — a call inside a loop that does not take a new
	// message (a retry around classify+send) classifies the same message against the state its
	// own first classification left behind
	{
		var sites []string
		n := 0
		for _, root := range sessionFuncs(c) {
			if root == disp {
				continue
			}
			an.Region(root, func(g *ssa.Function) bool { return g == disp }, func(o an.Occ) {
				call, ok := o.In.(*ssa.Call)
				if !ok || an.StaticCallee(&call.Call) != disp {
					return
				}
				// only from the function that takes the envelope off a channel
				recvs := envelopeRecvBlocks(root, disp)
				if len(recvs) == 0 {
					return
				}
				n++
				bad := ""
				// inside helpers: not in a loop at all
				for i, cs := range o.Chain {
					if i > 0 && an.InLoop(cs.Block()) {
						bad = "the call chain passes a loop in " + cs.Parent().Name()
					}
				}
				if len(o.Chain) > 0 && an.InLoop(call.Block()) {
					bad = "called in a loop of " + call.Parent().Name()
				}
				// in the receiving function: every way round a loop back to the call takes a new message
				site := o.Site()
				for _, sc := range site.Block().Succs {
					if !recvs[sc] && !recvs[site.Block()] && an.Reachable(sc, site.Block(), nil, recvs) {
						bad = "a loop in " + root.Name() + " reaches the call again without receiving a new message"
					}
				}
				if bad != "" {
					sites = append(sites, bad+" ("+P.Pos(call.Pos())+")")
				}
			})
		}
		c.CountSites(n)
		c.Check(n > 0 && len(sites) == 0, []string{"C08", "C09"}, fname(c, disp), "once-per-message", P.Pos(disp.Pos()), fmt.Sprintf("%d call(s) of the dispatcher, each once per message received from the children", n),
			"the state-changing dispatcher can run more than once for one child message: "+strings.Join(sites, "; ")+" — the second run sees the first one's bookkeeping (EOSE already marked, id already seen, slot already cleared) and drops the message")
	}
	// default clause forwards the child's message unchanged
	okDef := false
	for _, rb := range an.ReturnBlocks(disp) {
		rv0 := an.ReturnValues(an.LastInstr(rb).(*ssa.Return))[0]
		if strings.HasSuffix(an.PathOf(rv0), ".Msg") {
			okDef = true
		}
		// (the dispatcher's own ServerMsg parameter, when the caller has unpacked the record)
		if p, isP := an.Unwrap(rv0).(*ssa.Parameter); isP && p.Parent() == disp && typeNameOf(p.Type()) == "ServerMsg" {
			okDef = true
		}
	}
	c.Check(okDef, []string{"C08"}, fname(c, disp), "clause[default]", P.Pos(disp.Pos()), "other messages (CLOSED, NOTICE, AUTH) are forwarded unchanged", "messages of other types are not forwarded unchanged")
	// the post-EOSE / event handler returns the child's own message
	if h := hs["ServerEventMsg"]; h != nil {
		m := infos["ServerEventMsg"].msg
		good := false
		for _, rb := range an.ReturnBlocks(h) {
			rv := an.ReturnValues(an.LastInstr(rb).(*ssa.Return))
			if !an.IsNilConst(rv[0]) {
				good = rv[0] == m
			}
		}
		c.Check(good, []string{"C08"}, fname(c, h), "forwarded-value", P.Pos(h.Pos()), "a forwarded event message is the child's own (its subscription id and event)", "the forwarded event message is not the child's own message")
	}
}

func runSlotRelease(c *core.Ctx) {
	P := c.P
	hs := outboundHandlers(c)
	for _, row := range []struct{ typ, idField string }{{"ServerOKMsg", "EventID"}, {"ServerCountMsg", "SubscriptionID"}} {
		fn := hs[row.typ]
		if fn == nil {
			c.NoAnchor(nil, "merge handler of child "+row.typ)
			continue
		}
		c.CountFuncs(1)
		_, infos := outboundInfo(c)
		m := infos[row.typ].msg
		id := an.PathOf(m) + "." + row.idField
		// the releasing call: a state method that deletes from the state's map by its parameter —
		// made by the handler or by a private helper the handler delegates the whole step to
		var rel *ssa.Call
		var relOcc an.Occ
		folded, partial := false, ""
		an.Region(fn, nil, func(o an.Occ) {
			call, ok := o.In.(*ssa.Call)
			if !ok {
				return
			}
			sc := an.StaticCallee(&call.Call)
			if sc == nil || sc.Signature.Recv() == nil || !isMergeState(sc.Signature.Recv().Type()) {
				return
			}
			dels := false
			// the step folded into one method that answers with the aggregate itself (`Take(id) (*ServerOKMsg,
			// error)`): the ways out that matter are those that hand out a reply
			takes := sc.Signature.Results().Len() >= 2 && typeNameOf(sc.Signature.Results().At(0).Type()) == row.typ
			// (the delete may be delegated to a private helper of the state: stat.drop(id))
			an.Region(sc, nil, func(so an.Occ) {
				if cc, ok := so.In.(*ssa.Call); ok {
					if b, ok := cc.Call.Value.(*ssa.Builtin); ok && b.Name() == "delete" && len(sc.Params) == 2 && so.Path(cc.Call.Args[1]) == "p:"+sc.Params[1].Name() {
						// … on every way out of the method (a release that one return skips leaves the slot behind)
						all := true
						for _, rb := range an.ReturnBlocks(sc) {
							if takes && an.IsNilConst(an.ReturnValues(an.LastInstr(rb).(*ssa.Return))[0]) {
								continue
							}
							if sb := so.Site().Block(); !(sb == rb || sb.Dominates(rb)) {
								all = false
								if takes {
									partial = fname(c, sc) + " hands out a reply at " + P.Pos(an.LastInstr(rb).Pos()) + " without having released the slot"
								}
							}
						}
						if all {
							dels = true
						}
					}
				}
			})
			if dels {
				rel, relOcc = call, o
				folded = takes
			}
		})
		good := rel != nil
		detail := "no call releases the slot"
		if partial != "" && rel == nil {
			detail = partial
		}
		if rel != nil && folded {
			// the reply is the step's own answer, handed on only when the step did not fail
			host := rel.Parent()
			tr := relOcc.Path
			detail = "take(" + tr(rel.Call.Args[1]) + ")"
			good = tr(rel.Call.Args[1]) == id
			n := 0
			for _, re := range replyEdges(host) {
				n++
				ex, isEx := an.Unwrap(re.val).(*ssa.Extract)
				if !isEx || ex.Tuple != ssa.Value(rel) || ex.Index != 0 {
					good = false
					detail += "; the reply is not what the step answered"
				}
			}
			if n != 1 {
				good = false
				detail += fmt.Sprintf("; %d replying returns", n)
			}
			if host != fn {
				good = false
				detail += "; the step is delegated"
			}
			c.Check(good, nil, fname(c, fn), "release("+row.idField+")", P.Pos(fn.Pos()), "the reply is what "+an.CalleeName(&rel.Call)+"("+row.idField+") answers, and every answer of it that is a reply has released the slot of that id", "aggregation/release shape broken: "+detail+" — a second reply for the same request, or a stale slot answering a later request")
			continue
		}
		if rel != nil {
			host := rel.Parent()
			tr := relOcc.Path
			detail = "release(" + tr(rel.Call.Args[1]) + ")"
			good = tr(rel.Call.Args[1]) == id
			n := 0
			for _, re := range replyEdges(host) {
				rb := re.at
				n++
				if !(rel.Block() == rb || rel.Block().Dominates(rb)) {
					good = false
					detail += "; a replying return is not dominated by the release"
				}
				// the reply is the aggregate for the same id, taken before the release
				agg := an.CallOf(re.val)
				if agg == nil || len(agg.Call.Args) < 2 || tr(agg.Call.Args[1]) != id || !an.InstrDominates(agg, rel) {
					good = false
					detail += "; the reply is not the aggregate of the same id computed before the release"
				}
			}
			if n != 1 {
				good = false
				detail += fmt.Sprintf("; %d replying returns", n)
			}
			// replying only when Ready(id)
			ready := false
			for _, g := range an.Guards(host, rel.Block()) {
				if call, ok := g.V.(*ssa.Call); ok && g.True && strings.HasSuffix(an.CalleeName(&call.Call), ").Ready") && len(call.Call.Args) >= 2 && tr(call.Call.Args[1]) == id {
					ready = true
				}
			}
			if !ready {
				good = false
				detail += "; not guarded by Ready(id)"
			}
			// delegated: the handler's only reply is what the helper answers
			if host != fn {
				if len(relOcc.Chain) != 1 {
					good = false
					detail += "; the step is delegated through more than one level"
				} else {
					for _, rb := range an.ReturnBlocks(fn) {
						rv := an.ReturnValues(an.LastInstr(rb).(*ssa.Return))
						if !an.IsNilConst(rv[0]) && an.Unwrap(rv[0]) != ssa.Value(relOcc.Chain[0]) {
							good = false
							detail += "; the handler replies with something else than the delegated step's answer"
						}
					}
				}
			}
		}
		c.Check(good, nil, fname(c, fn), "release("+row.idField+")", P.Pos(fn.Pos()), "a reply is produced only when Ready("+row.idField+"), is the aggregate for that id, and the slot of that id is released on the way", "aggregation/release shape broken: "+detail+" — a second reply for the same request, or a stale slot answering a later request")
	}
}

// slotMapOf: the receiver's map whose per-key slice the fill method writes an
// element of (`msgs := stat.m[key]; msgs[i] = msg`), in the method's own terms —
// wherever the store is written (the method or a private helper it calls).
func slotMapOf(fill *ssa.Function) string {
	out := ""
	an.Region(fill, nil, func(o an.Occ) {
		st, ok := o.In.(*ssa.Store)
		if !ok {
			return
		}
		ia, ok := st.Addr.(*ssa.IndexAddr)
		if !ok {
			return
		}
		if lk, ok := an.LoadedValue(an.Unwrap(ia.X)).(*ssa.Lookup); ok {
			if p := o.Path(lk.X); strings.HasPrefix(p, "recv.") {
				out = p
			}
		}
	})
	return out
}

// maxFold: v is the running maximum of a loop over the list with access path list —
// initialised with list[0], replaced by the element at hand exactly under
// `elem.field > v.field` (or >=), the loop covering list[1:] (or the whole list) — read
// where the loop is left by exhaustion.
func maxFold(v ssa.Value, list, field string) (bool, string) {
	r, ok := an.Unwrap(v).(*ssa.Phi)
	if !ok {
		return false, ""
	}
	h := r.Block()
	if len(an.Latches(h)) == 0 {
		return false, ""
	}
	loop := an.LoopBlocks(h)
	elemOf := func(x ssa.Value) (*ssa.IndexAddr, bool) {
		u, isU := an.Unwrap(x).(*ssa.UnOp)
		if !isU || u.Op != token.MUL {
			return nil, false
		}
		ia, isIA := u.X.(*ssa.IndexAddr)
		return ia, isIA
	}
	sawInit, sawUpdate := false, false
	for i, pb := range h.Preds {
		e := r.Edges[i]
		if !loop[pb] {
			ia, isElem := elemOf(e)
			if !isElem || an.PathOf(ia.X) != list {
				return false, "the running maximum does not start with an element of the children's replies"
			}
			if k, isK := an.ConstInt(ia.Index); !isK || k != 0 {
				return false, "the running maximum does not start with the first reply"
			}
			sawInit = true
			continue
		}
		if e == ssa.Value(r) {
			continue
		}
		ia, isElem := elemOf(e)
		if !isElem {
			return false, "the running maximum is replaced by something that is not a reply"
		}
		// the element of a loop that covers list[1:] or the whole list
		base := an.Unwrap(ia.X)
		if sl, isSl := base.(*ssa.Slice); isSl {
			if an.PathOf(sl.X) != list || sl.High != nil {
				return false, "the loop does not run over the children's replies"
			}
			if k, isK := an.ConstInt(sl.Low); sl.Low != nil && (!isK || (k != 0 && k != 1)) {
				return false, "the loop skips replies"
			}
		} else if an.PathOf(base) != list {
			return false, "the loop does not run over the children's replies"
		}
		if all, why := forAllLoopAt(e, ia.Block()); !all {
			return false, "the loop does not visit every reply: " + why
		}
		// replaced only when the element is greater
		greater := false
		gs := an.Guards(h.Parent(), pb)
		if iff, isIf := an.LastInstr(pb).(*ssa.If); isIf && len(pb.Succs) == 2 && pb.Succs[0] != pb.Succs[1] {
			gs = append(gs, an.NormCond(an.Cond{V: iff.Cond, True: pb.Succs[0] == h, At: pb}))
		}
		ep, rp := an.PathOf(e)+"."+field, an.PathOf(r)+"."+field
		for _, g := range gs {
			b, isB := g.V.(*ssa.BinOp)
			if !isB {
				continue
			}
			x, y, op := an.PathOf(b.X), an.PathOf(b.Y), b.Op
			if !g.True {
				op = map[token.Token]token.Token{token.LSS: token.GEQ, token.LEQ: token.GTR, token.GTR: token.LEQ, token.GEQ: token.LSS}[op]
			}
			if x == ep && y == rp && (op == token.GTR || op == token.GEQ) {
				greater = true
			}
			if x == rp && y == ep && (op == token.LSS || op == token.LEQ) {
				greater = true
			}
		}
		if !greater {
			return false, "the running maximum is replaced without the element being greater"
		}
		sawUpdate = true
	}
	if !sawInit || !sawUpdate {
		return false, "no running maximum over the children's replies"
	}
	// … and kept only when the element is not greater (an extra condition on the replacement would let a
	// greater reply pass by)
	for i, pb := range h.Preds {
		if !loop[pb] || r.Edges[i] != ssa.Value(r) {
			continue
		}
		notGreater := false
		gs := an.Guards(h.Parent(), pb)
		if iff, isIf := an.LastInstr(pb).(*ssa.If); isIf && len(pb.Succs) == 2 && pb.Succs[0] != pb.Succs[1] {
			gs = append(gs, an.NormCond(an.Cond{V: iff.Cond, True: pb.Succs[0] == h, At: pb}))
		}
		for _, g := range gs {
			b, isB := g.V.(*ssa.BinOp)
			if !isB {
				continue
			}
			x, y, op := an.PathOf(b.X), an.PathOf(b.Y), b.Op
			if !g.True {
				op = map[token.Token]token.Token{token.LSS: token.GEQ, token.LEQ: token.GTR, token.GTR: token.LEQ, token.GEQ: token.LSS}[op]
			}
			rp := an.PathOf(r) + "." + field
			if strings.HasSuffix(x, "."+field) && y == rp && x != rp && (op == token.LEQ || op == token.LSS) {
				notGreater = true
			}
			if x == rp && strings.HasSuffix(y, "."+field) && y != rp && (op == token.GEQ || op == token.GTR) {
				notGreater = true
			}
		}
		if !notGreater {
			return false, "the running maximum can be kept although the element at hand was not compared (or is greater)"
		}
	}
	// every reply that is greater replaces it: no path of an iteration with `elem > max` keeps the old value —
	// the unchanged edges are the complement of the guard by construction of an if without else
	return true, ""
}

// prefixWriteElem: the reply whose field a WriteString call writes (`b.WriteString(msg.MsgPrefix)` → msg).
func prefixWriteElem(call *ssa.Call) ssa.Value {
	if u, ok := an.Unwrap(call.Call.Args[1]).(*ssa.UnOp); ok {
		if fa, ok := u.X.(*ssa.FieldAddr); ok {
			return fa.X
		}
	}
	return call.Call.Args[1]
}

// existsRejectedFlag: v is a flag that is true exactly when some reply of the list is not accepting:
// false before a loop that visits every element of the list (up to an early exit once the flag is set)
// and set to true only, and always, where `elem.Accepted` was found false.
func existsRejectedFlag(v ssa.Value, list string) bool {
	if list == "" {
		return false
	}
	ph, ok := an.Unwrap(v).(*ssa.Phi)
	if !ok {
		return false
	}
	fn := ph.Parent()
	seen := map[ssa.Value]bool{}
	sawFalse, sawTrue := false, false
	var walk func(p *ssa.Phi) bool
	walk = func(p *ssa.Phi) bool {
		if seen[p] {
			return true
		}
		seen[p] = true
		for i, e := range p.Edges {
			switch x := e.(type) {
			case *ssa.Phi:
				if !walk(x) {
					return false
				}
			case *ssa.Const:
				if !isConstBool(x, true) {
					if !isConstBool(x, false) {
						return false
					}
					sawFalse = true
					continue
				}
				// set to true: only behind `!elem.Accepted` for an element of the list
				pred := p.Block().Preds[i]
				gs := an.Guards(fn, pred)
				if iff, isIf := an.LastInstr(pred).(*ssa.If); isIf && len(pred.Succs) == 2 && pred.Succs[0] != pred.Succs[1] {
					gs = append(gs, an.NormCond(an.Cond{V: iff.Cond, True: pred.Succs[0] == p.Block(), At: pred}))
				}
				okSet := false
				for _, g := range gs {
					if an.PathOf(g.V) == list+"[*].Accepted" && !g.True {
						if all, _ := forAllLoopAt(acceptedElem(g.V), g.At); all {
							okSet = true
						}
					}
				}
				if !okSet {
					return false
				}
				sawTrue = true
			default:
				return false
			}
		}
		return true
	}
	if !walk(ph) || !sawFalse || !sawTrue {
		return false
	}
	// every rejecting element sets it: the false edge of the Accepted test leads to the assignment without
	// another condition in between (checked above: the assignment's own guards end with that test)
	return true
}

// acceptedElem: the reply whose Accepted field v reads.
func acceptedElem(v ssa.Value) ssa.Value {
	if u, ok := an.Unwrap(v).(*ssa.UnOp); ok {
		if fa, ok := u.X.(*ssa.FieldAddr); ok {
			return fa.X
		}
	}
	return v
}

func runCountMax(c *core.Ctx) {
	P := c.P
	fn := P.Method(P.Root, "mergeHandlerSessionCountState", "Msg")
	if fn == nil {
		c.NoAnchor(nil, "mergeHandlerSessionCountState.Msg")
		return
	}
	c.CountFuncs(1)
	good := false
	detail := "the reply is not slices.MaxFunc over the children's replies"
	for _, rb := range an.ReturnBlocks(fn) {
		call := an.CallOf(an.LastInstr(rb).(*ssa.Return).Results[0])
		if call == nil {
			continue
		}
		n := an.CalleeName(&call.Call)
		if !strings.HasPrefix(n, "slices.MaxFunc") {
			detail = "the reply is chosen by " + n
			continue
		}
		// the children's replies: the per-subscription slot list that SetCountMsg fills
		slots := "recv.counts"
		if fill := P.Method(P.Root, "mergeHandlerSessionCountState", "SetCountMsg"); fill != nil {
			if m := slotMapOf(fill); m != "" {
				slots = m
			}
		}
		if an.PathOf(call.Call.Args[0]) != slots+"[p:"+fn.Params[1].Name()+"]" {
			detail = "MaxFunc runs over " + an.PathOf(call.Call.Args[0])
			continue
		}
		cmpFn := funcValue(call.Call.Args[1])
		if cmpFn == nil {
			continue
		}
		for _, r2 := range an.ReturnBlocks(cmpFn) {
			cc := an.CallOf(an.LastInstr(r2).(*ssa.Return).Results[0])
			if cc != nil && strings.HasPrefix(an.CalleeName(&cc.Call), "cmp.Compare") {
				a, b := an.PathOf(cc.Call.Args[0]), an.PathOf(cc.Call.Args[1])
				good = a == "p:"+cmpFn.Params[0].Name()+".Count" && b == "p:"+cmpFn.Params[1].Name()+".Count"
				detail = "comparator = cmp.Compare(" + a + ", " + b + ")"
			}
		}
	}
	if !good {
		// the maximum written out: `ret := counts[0]; for _, c := range counts[1:] { if c.Count > ret.Count { ret = c } }; return ret`
		slots := "recv.counts"
		if fill := P.Method(P.Root, "mergeHandlerSessionCountState", "SetCountMsg"); fill != nil {
			if m := slotMapOf(fill); m != "" {
				slots = m
			}
		}
		for _, rb := range an.ReturnBlocks(fn) {
			if ok, why := maxFold(an.LastInstr(rb).(*ssa.Return).Results[0], slots+"[p:"+fn.Params[1].Name()+"]", "Count"); ok {
				good = true
			} else if why != "" {
				detail = why
			}
		}
	}
	c.Check(good, nil, fname(c, fn), "max", P.Pos(fn.Pos()), "COUNT reply = slices.MaxFunc(children's replies, cmp.Compare(a.Count, b.Count))", detail+": the merged COUNT is not the maximum of the children's counts")
}

func runOkAgg(c *core.Ctx) {
	P := c.P
	msgFn := P.Method(P.Root, "mergeHandlerSessionOKState", "Msg")
	ready := P.Method(P.Root, "mergeHandlerSessionOKState", "Ready")
	join := P.Func(P.Root, "joinServerOKMsgs")
	// the aggregation written verdict first, without the two lists and the join helper: the verdict
	// is "every reply accepts", the text is written in one pass over the replies, in child order,
	// from those whose own verdict equals the merged one
	if msgFn != nil && ready != nil && join == nil {
		c.CountFuncs(2)
		okV, why := okAggVerdictFirst(c, msgFn)
		c.Check(okV, nil, fname(c, msgFn), "verdict", P.Pos(msgFn.Pos()), "verdict-first aggregation: accepted iff every child's reply accepts; the text is the texts of the replies that agree with that verdict, in child order — a rejecting reply starts with the first rejecting child's reason",
			"the aggregated OK is not 'rejecting iff some child rejected, rejecting reasons first': "+why)
		c.Check(okV, nil, fname(c, msgFn), "join", P.Pos(msgFn.Pos()), "the reply is built once, labelled with the key its replies were filed under", "the aggregated OK is not built from the merged verdict and the in-order text: "+why)
		okAggReady(c, ready)
		return
	}
	// Ready + Msg (+ the release) folded into one method that answers with the aggregate or a reason why
	// not (`Take(id) (*ServerOKMsg, error)`): the aggregation is read in it, and "ready" is "no way to a
	// reply without having found every child's entry filled"
	foldedTake := false
	if msgFn == nil && ready == nil && join != nil {
		for _, f := range P.ModFuncs {
			if recvTypeName(f) == "mergeHandlerSessionOKState" && f.Parent() == nil && f.Signature.Results().Len() == 2 &&
				typeNameOf(f.Signature.Results().At(0).Type()) == "ServerOKMsg" && len(callsTo(f, join)) > 0 {
				msgFn, ready, foldedTake = f, f, true
			}
		}
	}
	if msgFn == nil || ready == nil || join == nil {
		c.NoAnchor(nil, "mergeHandlerSessionOKState.Msg / Ready, joinServerOKMsgs")
		return
	}
	c.CountFuncs(3)
	// partition by Accepted: the append sites (in Msg or a private helper it calls) that run
	// under "Accepted" and under "not Accepted"; a list is identified by the sites that feed it
	polarity := map[*ssa.Call]bool{}
	var accLists, rejLists []string
	slotList := "" // the list of the children's replies that is split
	an.Region(msgFn, nil, func(o an.Occ) {
		call, ok := o.In.(*ssa.Call)
		if !ok {
			return
		}
		b, ok := call.Call.Value.(*ssa.Builtin)
		if !ok || b.Name() != "append" {
			return
		}
		for _, g := range an.Guards(call.Parent(), call.Block()) {
			if strings.HasSuffix(an.PathOf(g.V), ".Accepted") {
				if sp := o.Path(g.V); strings.HasSuffix(sp, "[*].Accepted") {
					slotList = strings.TrimSuffix(sp, "[*].Accepted") // in Msg's terms, also when the split is a helper's
				}
				polarity[call] = g.True
				if g.True {
					accLists = append(accLists, P.Pos(call.Pos()))
				} else {
					rejLists = append(rejLists, P.Pos(call.Pos()))
				}
			}
		}
	})
	// the append sites a list value may come from (through phis and helper results)
	var feeds func(v ssa.Value, seen map[ssa.Value]bool) []*ssa.Call
	feeds = func(v ssa.Value, seen map[ssa.Value]bool) []*ssa.Call {
		v = an.Unwrap(v)
		if v == nil || seen[v] {
			return nil
		}
		seen[v] = true
		switch x := v.(type) {
		case *ssa.Phi:
			var out []*ssa.Call
			for _, e := range x.Edges {
				out = append(out, feeds(e, seen)...)
			}
			return out
		case *ssa.Call:
			if b, isB := x.Call.Value.(*ssa.Builtin); isB && b.Name() == "append" {
				return append([]*ssa.Call{x}, feeds(x.Call.Args[0], seen)...)
			}
			// the list as the single result of a private helper (`rejected := rejectedOnly(msgs)`)
			if h := an.StaticCallee(&x.Call); an.PrivateHelper(h) && h.Signature.Results().Len() == 1 {
				var out []*ssa.Call
				for _, rb := range an.ReturnBlocks(h) {
					rv := an.ReturnValues(an.LastInstr(rb).(*ssa.Return))
					out = append(out, feeds(rv[0], seen)...)
				}
				return out
			}
		case *ssa.Extract:
			if hc, isCall := x.Tuple.(*ssa.Call); isCall {
				if h := an.StaticCallee(&hc.Call); an.PrivateHelper(h) {
					var out []*ssa.Call
					for _, rb := range an.ReturnBlocks(h) {
						rv := an.ReturnValues(an.LastInstr(rb).(*ssa.Return))
						if x.Index < len(rv) {
							out = append(out, feeds(rv[x.Index], seen)...)
						}
					}
					return out
				}
			}
		}
		return nil
	}
	onlyPolarity := func(v ssa.Value, want bool) bool {
		fs := feeds(v, map[ssa.Value]bool{})
		if len(fs) == 0 {
			return false
		}
		for _, f := range fs {
			if p, known := polarity[f]; !known || p != want {
				return false
			}
		}
		return true
	}
	// return join(rejected) iff len(rejected) > 0, else join(accepted)
	allWhenNoneRejected := false
	okRet := false
	detail := ""
	// the function that chooses between the two lists: Msg, or a private helper it returns
	host := msgFn
	for depth := 0; depth < 2; depth++ {
		var next *ssa.Function
		for _, rb := range an.ReturnBlocks(host) {
			if call := an.CallOf(an.ReturnValues(an.LastInstr(rb).(*ssa.Return))[0]); call != nil {
				if h := an.StaticCallee(&call.Call); an.PrivateHelper(h) && h != join {
					next = h
				}
			}
		}
		if next == nil {
			break
		}
		host = next
	}
	for _, rb := range an.ReturnBlocks(host) {
		call := an.CallOf(an.LastInstr(rb).(*ssa.Return).Results[0])
		if call == nil || an.StaticCallee(&call.Call) != join {
			continue
		}
		arg := call.Call.Args[0]
		// "the rejecting list is not empty" holds at block b — any spelling: len > 0, len != 0, !(len == 0), len >= 1 …
		var edgeTo *ssa.BasicBlock
		nonEmptyRej := func(b *ssa.BasicBlock, list ssa.Value) bool {
			gs := an.Guards(host, b)
			// the branch b itself takes towards edgeTo (a phi edge leaving an `if` directly)
			if iff, isIf := an.LastInstr(b).(*ssa.If); isIf && edgeTo != nil && len(b.Succs) == 2 && b.Succs[0] != b.Succs[1] {
				gs = append(gs, an.NormCond(an.Cond{V: iff.Cond, True: b.Succs[0] == edgeTo, At: b}))
			}
			for _, g := range gs {
				bin, ok := g.V.(*ssa.BinOp)
				if !ok {
					continue
				}
				lp, ok := bin.X.(*ssa.Call)
				if !ok || !strings.HasPrefix(an.PathOf(bin.X), "len(") || !(lp.Call.Args[0] == list || onlyPolarity(lp.Call.Args[0], false)) {
					continue
				}
				fr := an.Frame{IsSubject: func(v ssa.Value) bool { return v == ssa.Value(lp) }, Term: func(v ssa.Value) (int64, bool) { return an.ConstInt(v) }}
				if set, ok := fr.Atom(g.V, g.True); ok && set.Intersect(an.Range(0, an.PosInf)).Equal(an.Range(1, an.PosInf)) {
					return true
				}
			}
			return false
		}
		// one join call fed by a variable that was picked before (`picked := accepted; if len(rejected) > 0
		// { picked = rejected }; return join(picked...)`): per edge of the phi
		edgeKind := func(e ssa.Value) string {
			switch {
			case an.IsNilConst(an.Unwrap(e)):
				return "empty"
			case onlyPolarity(e, false):
				return "rej"
			case onlyPolarity(e, true):
				return "acc"
			case slotList != "" && an.PathOf(e) == slotList:
				return "all"
			}
			return "other"
		}
		pickedPhi := false
		if ph, isPhi := an.Unwrap(arg).(*ssa.Phi); isPhi && len(ph.Edges) == 2 {
			k0, k1 := edgeKind(ph.Edges[0]), edgeKind(ph.Edges[1])
			pickedPhi = (k0 == "rej" && (k1 == "acc" || k1 == "all")) || (k1 == "rej" && (k0 == "acc" || k0 == "all"))
		}
		if ph, isPhi := an.Unwrap(arg).(*ssa.Phi); isPhi && pickedPhi {
			rejEdge, accEdge := -1, -1
			allEdge := false
			for i, e := range ph.Edges {
				switch {
				case onlyPolarity(e, false):
					rejEdge = i
				case onlyPolarity(e, true):
					accEdge = i
				case slotList != "" && an.PathOf(e) == slotList:
					// every reply — which, taken only when nothing was rejected, is every accepting reply
					accEdge, allEdge = i, true
				}
			}
			edgeTo = ph.Block()
			picked := rejEdge >= 0 && accEdge >= 0 && nonEmptyRej(ph.Block().Preds[rejEdge], ph.Edges[rejEdge]) && !nonEmptyRej(ph.Block().Preds[accEdge], ph.Edges[rejEdge])
			if picked {
				okRet = true
				if allEdge {
					allWhenNoneRejected = true
				}
			}
			edgeTo = nil
			detail += fmt.Sprintf("[join(picked list): rejecting list chosen iff non-empty: %v] ", picked)
			continue
		}
		guardedByLen := nonEmptyRej(rb, arg)
		isRej := onlyPolarity(arg, false)
		if guardedByLen && isRej {
			okRet = true
		}
		// the verdict found first by a scan of its own (`rejected := false; for … { if !msg.Accepted { rejected = true; break } }`)
		// and the lists chosen by that flag
		for _, g := range an.Guards(host, rb) {
			if !existsRejectedFlag(g.V, slotList) {
				continue
			}
			if g.True && isRej {
				okRet = true
				guardedByLen = true
			}
			if !g.True && slotList != "" && an.PathOf(arg) == slotList {
				allWhenNoneRejected = true
			}
		}
		// no list of accepted replies at all: with no rejecting reply every reply is an accepting
		// one, so `join(all replies)` behind "the rejecting list is empty" is the accepted branch
		if !isRej && slotList != "" && an.PathOf(arg) == slotList {
			for _, g := range an.Guards(host, rb) {
				bin, ok := g.V.(*ssa.BinOp)
				if !ok {
					continue
				}
				lp, ok := bin.X.(*ssa.Call)
				if !ok || !strings.HasPrefix(an.PathOf(bin.X), "len(") || !onlyPolarity(lp.Call.Args[0], false) {
					continue
				}
				fr := an.Frame{IsSubject: func(v ssa.Value) bool { return v == ssa.Value(lp) }, Term: func(v ssa.Value) (int64, bool) { return an.ConstInt(v) }}
				if set, ok := fr.Atom(g.V, g.True); ok && set.Intersect(an.Range(0, an.PosInf)).Equal(an.Range(0, 0)) {
					allWhenNoneRejected = true
				}
			}
		}
		detail += fmt.Sprintf("[join(rejecting replies only: %v) guardedByLen=%v] ", isRej, guardedByLen)
	}
	c.Check(okRet && (len(accLists) == 1 || (len(accLists) == 0 && allWhenNoneRejected)) && len(rejLists) == 1, nil, fname(c, msgFn), "verdict", P.Pos(msgFn.Pos()), "children's replies are split by Accepted; if any child rejected, the reply is built from the rejecting ones only (so it is rejecting and starts with the first rejecting reason), otherwise from the accepting ones",
		"the aggregated OK is not 'rejecting iff some child rejected, rejecting reasons first': "+detail)
	// join: id and verdict from msgs[0], text = concatenation in order
	var ctor *ssa.Call
	for _, call := range callsNamed(join, core.ModulePath+".NewServerOKMsg") {
		ctor = call
	}
	okJoin := false
	if ctor != nil {
		mp := "p:" + join.Params[0].Name()
		okJoin = an.PathOf(ctor.Call.Args[0]) == mp+"[0].EventID" && an.PathOf(ctor.Call.Args[1]) == mp+"[0].Accepted"
		// text: WriteString(msg.Message()) for each msg in order
		wrote := false
		var prefixWrite, msgWrite *ssa.Call
		nWrites := 0
		for _, ci := range calls(join) {
			if call, ok := ci.(*ssa.Call); ok && strings.HasSuffix(an.CalleeName(&call.Call), "strings.Builder).WriteString") && an.InLoop(call.Block()) {
				nWrites++
				ap := an.PathOf(call.Call.Args[1])
				if strings.Contains(ap, "ServerOKMsg).Message("+mp+"[*])") || ap == "("+mp+"[*].MsgPrefix + "+mp+"[*].Msg)" {
					wrote = true
				}
				switch ap {
				case mp + "[*].MsgPrefix":
					prefixWrite = call
				case mp + "[*].Msg":
					msgWrite = call
				}
			}
		}
		// Message() spelled out: the prefix, then the text, written one after the other for each reply
		if !wrote && nWrites == 2 && prefixWrite != nil && msgWrite != nil && prefixWrite.Block() == msgWrite.Block() && before(prefixWrite, msgWrite) {
			if all, _ := forAllLoopAt(prefixWriteElem(prefixWrite), prefixWrite.Block()); all {
				wrote = true
			}
		}
		okJoin = okJoin && wrote && strings.Contains(an.PathOf(ctor.Call.Args[3]), "strings.Builder).String(")
	}
	c.Check(okJoin, nil, fname(c, join), "join", P.Pos(join.Pos()), "joined reply: id and verdict of the first message, text = the messages' texts concatenated in order (machine-readable prefix of the first survives)", "the joined OK does not carry the first message's id/verdict with the texts concatenated in order")
	if foldedTake {
		okAggReadyFolded(c, ready)
	} else {
		okAggReady(c, ready)
	}
}

// okAggVerdictFirst: Msg(id) = NewServerOKMsg(id, V, "", text) with L = recv.s[id], V = "every element
// of L has Accepted" (a standard-library quantifier over L), and text the Builder written only in a
// range loop over L with each element's Message() behind `elem.Accepted == V`.
func okAggVerdictFirst(c *core.Ctx, msgFn *ssa.Function) (bool, string) {
	if len(msgFn.Params) != 2 {
		return false, "Msg does not take the event id alone"
	}
	idP := msgFn.Params[1]
	var ctor *ssa.Call
	for _, rb := range an.ReturnBlocks(msgFn) {
		rv := an.ReturnValues(an.LastInstr(rb).(*ssa.Return))
		if len(rv) != 1 {
			return false, "unexpected results"
		}
		call := an.CallOf(rv[0])
		if call == nil || !strings.HasSuffix(an.CalleeName(&call.Call), ".NewServerOKMsg") || ctor != nil {
			return false, "Msg does not end in one NewServerOKMsg"
		}
		ctor = call
	}
	if ctor == nil || len(ctor.Call.Args) != 4 {
		return false, "no NewServerOKMsg result"
	}
	if ctor.Call.Args[0] != ssa.Value(idP) {
		return false, "the reply is not labelled with the id the replies were looked up under"
	}
	// L = recv.s[id]
	var list ssa.Value
	an.Instrs(msgFn, func(in ssa.Instruction) {
		if lk, ok := in.(*ssa.Lookup); ok && lk.Index == ssa.Value(idP) && an.PathOf(lk.X) == "recv.s" {
			list = lk
		}
	})
	if list == nil {
		return false, "the replies are not looked up under the id"
	}
	verdict := an.Unwrap(ctor.Call.Args[1])
	q, member, okq := quantOver(verdict, list)
	if !okq || q != "all" || member != "Accepted" {
		return false, fmt.Sprintf("the verdict is not 'every reply accepts' (read: %s %s)", q, member)
	}
	if s, isS := an.ConstStr(ctor.Call.Args[2]); !isS || s != "" {
		return false, "the reply carries a prefix of its own"
	}
	txt := an.CallOf(ctor.Call.Args[3])
	if txt == nil || !strings.HasSuffix(an.CalleeName(&txt.Call), "strings.Builder).String") {
		return false, "the text is not a strings.Builder's"
	}
	builder := txt.Call.Args[0]
	nWrites := 0
	for _, ci := range calls(msgFn) {
		call, ok := ci.(*ssa.Call)
		if !ok || len(call.Call.Args) == 0 || call.Call.Args[0] != builder {
			continue
		}
		n := an.CalleeName(&call.Call)
		if strings.HasSuffix(n, "strings.Builder).String") {
			continue
		}
		if !strings.HasSuffix(n, "strings.Builder).WriteString") {
			return false, "the builder is written by " + n
		}
		nWrites++
		// the element's own Message(), in a range loop over L
		mc := an.CallOf(call.Call.Args[1])
		if mc == nil || !strings.HasSuffix(an.CalleeName(&mc.Call), "ServerOKMsg).Message") {
			return false, "something other than a reply's Message() is written"
		}
		elem := mc.Call.Args[0]
		// one pass over all replies, front to back: the loop is left only when the range is exhausted
		h := an.LoopHeaderOf(call.Block())
		if h == nil {
			return false, "the text is not written in a loop over the replies"
		}
		loop := an.LoopBlocks(h)
		for b := range loop {
			for _, sb := range b.Succs {
				if !loop[sb] && b != h {
					return false, "the loop over the replies can be left early (" + c.P.Pos(an.LastInstr(b).Pos()) + ")"
				}
			}
		}
		if ld, isLd := elem.(*ssa.UnOp); !isLd || ld.Op != token.MUL {
			return false, "the written reply is not an element of the list"
		} else if ia, isIA := ld.X.(*ssa.IndexAddr); !isIA || an.Unwrap(ia.X) != list {
			return false, "the written reply is not an element of the looked-up list"
		}
		agrees := false
		for _, g := range an.Guards(msgFn, call.Block()) {
			g = an.NormCond(g)
			b, isB := g.V.(*ssa.BinOp)
			if !isB || b.Op != token.EQL || !g.True {
				continue
			}
			for _, pair := range [][2]ssa.Value{{b.X, b.Y}, {b.Y, b.X}} {
				if an.Unwrap(pair[1]) != verdict {
					continue
				}
				if fld, isF := pair[0].(*ssa.UnOp); isF && fld.Op == token.MUL {
					if fa, isFA := fld.X.(*ssa.FieldAddr); isFA && fa.X == elem && an.FieldName(fa.X.Type(), fa.Field) == "Accepted" {
						agrees = true
					}
				}
			}
		}
		if !agrees {
			return false, "a reply's text is written without testing that its verdict equals the merged one"
		}
	}
	if nWrites != 1 {
		return false, fmt.Sprintf("%d writes into the text", nWrites)
	}
	return true, ""
}

// okAggReady: Ready ⇒ the slot exists and no child reply is missing
// okAggReadyFolded: the folded form of the ready clause — every way of `take` to a reply (a non-nil
// first result) has searched the slot for a missing (nil) entry and found none.
func okAggReadyFolded(c *core.Ctx, take *ssa.Function) {
	P := c.P
	var search *ssa.Call
	for _, ci := range calls(take) {
		call, ok := ci.(*ssa.Call)
		if !ok || len(call.Call.Args) != 2 || !an.IsNilConst(an.Unwrap(call.Call.Args[1])) {
			continue
		}
		if n := an.CalleeName(&call.Call); strings.HasPrefix(n, "slices.Contains") || strings.HasPrefix(n, "slices.Index") {
			search = call
		}
	}
	good, why := search != nil, "no test for a missing reply"
	if search != nil {
		isIndex := strings.HasPrefix(an.CalleeName(&search.Call), "slices.Index")
		for _, rb := range an.ReturnBlocks(take) {
			if an.IsNilConst(an.ReturnValues(an.LastInstr(rb).(*ssa.Return))[0]) {
				continue
			}
			alts, ok := an.ReachConds(take, rb)
			if !ok {
				good, why = false, "too many paths"
				break
			}
			c.CountPaths(len(alts))
			for _, cs := range alts {
				none := false
				for _, cd := range cs {
					cd = an.NormCond(cd)
					if !isIndex && cd.V == ssa.Value(search) && !cd.True {
						none = true
					}
					if bo, isB := cd.V.(*ssa.BinOp); isIndex && isB && bo.X == ssa.Value(search) {
						k, isK := an.ConstInt(bo.Y)
						switch {
						case !isK:
						case bo.Op == token.GEQ && k == 0 && !cd.True, bo.Op == token.LSS && k == 0 && cd.True,
							bo.Op == token.EQL && k == -1 && cd.True, bo.Op == token.NEQ && k == -1 && !cd.True,
							bo.Op == token.GTR && k == -1 && !cd.True, bo.Op == token.LEQ && k == -1 && cd.True:
							none = true
						}
					}
				}
				if !none {
					good, why = false, "a way to a reply ("+P.Pos(an.LastInstr(rb).Pos())+") has not found every child's entry filled"
				}
			}
		}
	}
	c.Check(good, nil, fname(c, take), "ready", P.Pos(take.Pos()), "a reply is handed out only after the slot was searched for a missing (nil) entry and none was found", "a reply can be handed out before every child answered ("+why+"): the aggregate is sent before all children answered")
}

func okAggReady(c *core.Ctx, ready *ssa.Function) {
	P := c.P
	t, _, n, ok := an.NoSubject().FuncBoolMeaning(ready, 0, nil, nil)
	_ = t
	contains := false
	forced, forcedWhy := false, "no test for a missing reply"
	an.Region(ready, nil, func(o an.Occ) {
		call, isCall := o.In.(*ssa.Call)
		if !isCall || !strings.HasPrefix(an.CalleeName(&call.Call), "slices.Contains") || len(call.Call.Args) != 2 || !an.IsNilConst(an.Unwrap(o.Resolve(call.Call.Args[1]))) {
			return
		}
		contains = true
		// a missing reply (Contains(…, nil) = true) forces "not ready", through every helper level
		forced, forcedWhy = impliesResult(c, call.Parent(), call, true)
		for i := len(o.Chain) - 1; i >= 0 && forced; i-- {
			forced, forcedWhy = impliesFalse(c, o.Chain[i].Parent(), o.Chain[i])
		}
		// … and "ready" is never answered without having made that test
		sites := append([]ssa.Instruction{call}, nil...)
		for _, ch := range o.Chain {
			sites = append(sites, ch)
		}
		for _, site := range sites {
			if !forced {
				break
			}
			tps, okp := an.ResultPaths(site.Parent(), 0, true)
			if !okp {
				forced, forcedWhy = false, "too many paths"
				break
			}
			for _, tp := range tps {
				if !tp.Visits(site.Block()) {
					forced, forcedWhy = false, "a path answers 'ready' without testing for a missing reply ("+P.Pos(an.LastInstr(tp.Path[len(tp.Path)-1]).Pos())+")"
				}
			}
		}
	})
	c.CountPaths(n)
	c.Check(ok && contains && forced, nil, fname(c, ready), "ready", P.Pos(ready.Pos()), "Ready ⇒ the slot exists and holds a reply of every child (a nil entry forces 'not ready')", "Ready does not require a reply of every child ("+forcedWhy+"): the aggregate is sent before all children answered")
}

// envelopeRecvBlocks: the blocks of root (a function, with its closures not considered) in which a
// value of the dispatcher's envelope type is received from a channel (`msg := <-ch`, or a select case).
func envelopeRecvBlocks(root, disp *ssa.Function) map[*ssa.BasicBlock]bool {
	out := map[*ssa.BasicBlock]bool{}
	if len(disp.Params) < 2 {
		return out
	}
	env := disp.Params[len(disp.Params)-1].Type()
	// the channel carries the message itself, or a record holding it / a batch of them
	// (the message, or what the record handed to the dispatcher is made of)
	parts := []types.Type{env}
	{
		et := env
		if pt, ok := et.Underlying().(*types.Pointer); ok {
			et = pt.Elem()
		}
		if st, ok := et.Underlying().(*types.Struct); ok {
			for i := 0; i < st.NumFields(); i++ {
				if _, isIface := st.Field(i).Type().Underlying().(*types.Interface); isIface {
					parts = append(parts, st.Field(i).Type())
				}
			}
		}
	}
	isPart := func(t types.Type) bool {
		for _, p := range parts {
			if types.Identical(t, p) {
				return true
			}
		}
		return false
	}
	carries := func(t types.Type) bool {
		if types.Identical(t, env) {
			return true
		}
		if pt, ok := t.Underlying().(*types.Pointer); ok {
			t = pt.Elem()
		}
		st, ok := t.Underlying().(*types.Struct)
		if !ok {
			return false
		}
		for i := 0; i < st.NumFields(); i++ {
			ft := st.Field(i).Type()
			if isPart(ft) {
				return true
			}
			if sl, ok := ft.Underlying().(*types.Slice); ok && isPart(sl.Elem()) {
				return true
			}
		}
		return false
	}
	isEnvChan := func(t types.Type) bool {
		ch, ok := t.Underlying().(*types.Chan)
		return ok && carries(ch.Elem())
	}
	// a batch of messages walked element by element: each turn of the range loop takes the next
	// message (`for _, msg := range batch.Msgs { ss.handleSendMsg(batch.Idx, msg) }`)
	for _, call := range callsTo(root, disp) {
		var cands []ssa.Value
		for _, a := range call.Call.Args {
			if !types.Identical(a.Type(), env) {
				continue
			}
			cands = append(cands, a)
			// the record built per element by a module constructor
			if mk, isCall := a.(*ssa.Call); isCall {
				if sc := an.StaticCallee(&mk.Call); sc != nil && sc.Pkg == disp.Pkg {
					for _, a2 := range mk.Call.Args {
						if isPart(a2.Type()) {
							cands = append(cands, a2)
						}
					}
				}
			}
		}
		for _, a := range cands {
			ld, ok := a.(*ssa.UnOp)
			if !ok || ld.Op != token.MUL {
				continue
			}
			ia, ok := ld.X.(*ssa.IndexAddr)
			if !ok {
				continue
			}
			idx := ia.Index
			var ph *ssa.Phi
			if bo, ok := idx.(*ssa.BinOp); ok && bo.Op == token.ADD {
				if k, isK := an.ConstInt(bo.Y); isK && k == 1 {
					ph, _ = bo.X.(*ssa.Phi)
				}
			}
			if ph == nil {
				continue
			}
			self := false
			for _, e := range ph.Edges {
				if e == idx {
					self = true
				}
			}
			if self && an.LoopHeaderOf(call.Block()) != nil {
				out[ph.Block()] = true
			}
		}
	}
	for _, b := range root.Blocks {
		for _, in := range b.Instrs {
			switch x := in.(type) {
			case *ssa.UnOp:
				if x.Op == token.ARROW && isEnvChan(x.X.Type()) {
					out[b] = true
				}
			case *ssa.Select:
				for _, st := range x.States {
					if st.Dir == types.RecvOnly && isEnvChan(st.Chan.Type()) {
						out[b] = true
					}
				}
			}
		}
	}
	return out
}

// boolResultIdx: the index of fn's verdict — its only result if that is a bool, or the last one of
// several if that is a bool (`(summary, ok)`); -1 otherwise.
func boolResultIdx(fn *ssa.Function) int {
	res := fn.Signature.Results()
	if res.Len() == 0 {
		return -1
	}
	if bt, ok := res.At(res.Len() - 1).Type().Underlying().(*types.Basic); ok && bt.Kind() == types.Bool {
		return res.Len() - 1
	}
	return -1
}

// matcherFromFilters: v is the result of the list-matcher constructor, or of the variant it delegates
// to, called with the REQ's filters as first argument (further arguments configure the relay's
// limits, not the subscription).
func matcherFromFilters(P *core.Program, v ssa.Value, filters *ssa.Parameter) bool {
	call, ok := an.Unwrap(v).(*ssa.Call)
	if !ok || len(call.Call.Args) == 0 || call.Call.Args[0] != ssa.Value(filters) {
		return false
	}
	ctor := P.Func(P.Root, "NewReqFiltersEventLimitMatcher")
	g := an.StaticCallee(&call.Call)
	return ctor != nil && g != nil && (g == ctor || g == listCtorBody(P, ctor))
}
