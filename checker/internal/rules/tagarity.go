package rules

import (
	"fmt"
	"go/types"
	"path/filepath"
	"sort"
	"strings"

	"golang.org/x/tools/go/ssa"

	"mocverif/internal/an"
	"mocverif/internal/core"
)

func init() {
	reg(&core.RuleInfo{Name: "TAG-ARITY", Props: []string{"C02", "C03", "C04", "C05", "C06"}, Engine: "INT", Floor: 6, Confirmed: 11,
		Doc: "reads of tag[1] execute exactly under len(tag) >= 2", Run: runTagArity})
	reg(&core.RuleInfo{Name: "DTAG-FIRST", Props: []string{"C04", "C05", "C06"}, Engine: "INT", Floor: 3, Confirmed: 3,
		Doc: "the d value is that of the first tag NAMED d: the name test of the d search is reached by every tag that has a name", Run: runDTagFirst})
}

// fileOf returns the base name of the file fn is declared in.
func fileOf(c *core.Ctx, fn *ssa.Function) string {
	f := fn
	for f.Parent() != nil {
		f = f.Parent()
	}
	return filepath.Base(c.P.Fset.Position(f.Pos()).Filename)
}

// tagAttribution: which properties a tag read in this function belongs to.
func tagAttribution(c *core.Ctx, fn *ssa.Function) []string {
	pkg := c.P.PkgOf(fn)
	if strings.HasSuffix(pkg, "/handler/sqlite") {
		return []string{"C06"}
	}
	root := fn
	for root.Parent() != nil {
		root = root.Parent()
	}
	owners := ownerTypes(c, fn)
	has := func(sub string) bool {
		for o := range owners {
			if strings.Contains(o, sub) {
				return true
			}
		}
		return false
	}
	name := an.ShortName(root)
	switch {
	case has("Matcher") || strings.Contains(name, "Matcher"):
		return []string{"C02"}
	case has("eventCacheEvsIndex") || strings.Contains(name, "keysFrom"):
		return []string{"C03"}
	case has("EventCache"):
		if strings.Contains(name, "Kind5") {
			return []string{"C05"}
		}
		return []string{"C04", "C05"}
	}
	return []string{"C05"}
}

func isTagType(t types.Type) bool {
	n, ok := t.(*types.Named)
	if !ok {
		return false
	}
	return n.Obj().Name() == "Tag" && n.Obj().Pkg() != nil && n.Obj().Pkg().Path() == core.ModulePath
}

func runTagArity(c *core.Ctx) {
	P := c.P
	type group struct {
		fn    *ssa.Function
		subj  string
		union an.Set
		each  []string
		pos   string
		bad   bool
		paths int
		gave  bool
	}
	groups := map[string]*group{}
	var order []string
	for _, fn := range P.ModFuncs {
		c.CountFuncs(1)
		an.Instrs(fn, func(in ssa.Instruction) {
			var x, idx ssa.Value
			switch v := in.(type) {
			case *ssa.IndexAddr:
				x, idx = v.X, v.Index
			case *ssa.Index:
				x, idx = v.X, v.Index
			default:
				return
			}
			if !isTagType(x.Type()) {
				return
			}
			k, ok := an.ConstInt(idx)
			if !ok || k != 1 {
				return
			}
			c.CountSites(1)
			subj := "len(" + an.PathOf(x) + ")"
			key := fname(c, fn) + "|" + subj
			g := groups[key]
			if g == nil {
				g = &group{fn: fn, subj: subj, union: an.Empty(), pos: P.Pos(in.Pos())}
				groups[key] = g
				order = append(order, key)
			}
			fr := an.ConstFrame(subj)
			set, n, ok := fr.ReachSet(fn, in.Block(), nil, nil)
			g.paths += n
			if !ok {
				g.gave = true
				return
			}
			g.union = g.union.Union(set)
			g.each = append(g.each, fmt.Sprintf("%s:%s", P.Pos(in.Pos()), set))
		})
	}
	sort.Strings(order)
	want := an.Range(2, an.PosInf)
	for _, key := range order {
		g := groups[key]
		props := tagAttribution(c, g.fn)
		c.CountPaths(g.paths)
		construct := "read tag[1] of " + strings.TrimSuffix(strings.TrimPrefix(g.subj, "len("), ")")
		if g.gave {
			c.Unknown(props, fname(c, g.fn), construct, g.pos, "path enumeration gave up")
			continue
		}
		switch {
		case g.union.Equal(want):
			c.OK(props, fname(c, g.fn), construct, g.pos, "executes exactly when "+g.subj+" ∈ "+g.union.String()+" ("+strings.Join(g.each, ", ")+")")
		case !g.union.Subset(want):
			c.Bad(props, fname(c, g.fn), construct, g.pos, "may execute with "+g.subj+" ∈ "+g.union.String()+": a one-element tag makes the read panic (want [2,+∞))")
		default:
			c.Bad(props, fname(c, g.fn), construct, g.pos, "executes only when "+g.subj+" ∈ "+g.union.String()+": tags with extra elements (e.g. a relay hint as third element) are ignored (want [2,+∞))")
		}
	}
}

// ---------------------------------------------------------------- DTAG-FIRST

// runDTagFirst: the address of an addressable event carries the value of its FIRST d tag,
// the empty value when that tag is bare (`["d"]`). Structural necessary condition: where a
// tag's name is compared with "d" — directly, or inside a module helper that is handed "d"
// as the name to look for — the read of tag[0] is reached by every tag that has a name
// (len(tag) ∈ [1,+∞) ⊆ the lengths under which it executes). A search that looks only at tags
// with a value (`len(tag) >= 2 && tag[0] == name`) passes over a bare first d tag and files the
// event under a later d tag's value (seed C04-p). Whether the value is then read behind its own
// length test is TAG-ARITY's business.
func runDTagFirst(c *core.Ctx) {
	P := c.P
	type site struct {
		fn    *ssa.Function
		in    ssa.Instruction
		x     ssa.Value
		via   string
		props []string
	}
	var sites []site
	seen := map[ssa.Instruction]bool{}
	tagRead0 := func(v ssa.Value) (ssa.Instruction, ssa.Value, bool) {
		v = an.Unwrap(v)
		if u, ok := v.(*ssa.UnOp); ok {
			v = u.X
		}
		switch r := v.(type) {
		case *ssa.IndexAddr:
			if k, ok := an.ConstInt(r.Index); ok && k == 0 && isTagType(r.X.Type()) {
				return r, r.X, true
			}
		case *ssa.Index:
			if k, ok := an.ConstInt(r.Index); ok && k == 0 && isTagType(r.X.Type()) {
				return r, r.X, true
			}
		}
		return nil, nil, false
	}
	isD := func(v ssa.Value) bool {
		s, ok := an.ConstStr(v)
		return ok && s == "d"
	}
	var withAnon func(g *ssa.Function, f func(*ssa.Function))
	withAnon = func(g *ssa.Function, f func(*ssa.Function)) {
		f(g)
		for _, a := range g.AnonFuncs {
			withAnon(a, f)
		}
	}
	for _, fn := range P.ModFuncs {
		c.CountFuncs(1)
		an.Instrs(fn, func(in ssa.Instruction) {
			switch v := in.(type) {
			case *ssa.BinOp:
				// tag[0] == "d" / != "d"
				for _, pair := range [][2]ssa.Value{{v.X, v.Y}, {v.Y, v.X}} {
					if !isD(pair[1]) {
						continue
					}
					if r, x, ok := tagRead0(pair[0]); ok && !seen[r] {
						seen[r] = true
						sites = append(sites, site{fn: fn, in: r, x: x, via: "compared with \"d\"", props: tagAttribution(c, fn)})
					}
				}
			case *ssa.Call:
				g := an.StaticCallee(&v.Call)
				if g == nil || !an.InModuleFn(g) {
					return
				}
				handsD := false
				for _, a := range v.Call.Args {
					if isD(a) {
						handsD = true
					}
					if elems, ok := an.VariadicElems(a); ok {
						for _, e := range elems {
							if isD(e) {
								handsD = true
							}
						}
					}
				}
				if !handsD {
					return
				}
				withAnon(g, func(h *ssa.Function) {
					an.Instrs(h, func(hi ssa.Instruction) {
						val, isVal := hi.(ssa.Value)
						if !isVal {
							return
						}
						if r, x, ok := tagRead0(val); ok && r == hi && !seen[r] {
							seen[r] = true
							sites = append(sites, site{fn: h, in: r, x: x, via: "in " + fname(c, g) + ", handed \"d\" as the name by " + fname(c, fn), props: tagAttribution(c, fn)})
						}
					})
				})
			}
		})
	}
	want := an.Range(1, an.PosInf)
	for _, s := range sites {
		c.CountSites(1)
		subj := "len(" + an.PathOf(s.x) + ")"
		construct := "name test of the d search (" + strings.TrimSuffix(strings.TrimPrefix(subj, "len("), ")") + ")"
		pos := P.Pos(s.in.Pos())
		fr := an.ConstFrame(subj)
		set, n, ok := fr.ReachSet(s.fn, s.in.Block(), nil, nil)
		c.CountPaths(n)
		if !ok {
			c.Unknown(s.props, fname(c, s.fn), construct, pos, "path enumeration gave up")
			continue
		}
		if want.Subset(set) {
			c.OK(s.props, fname(c, s.fn), construct, pos, "tag[0] ("+s.via+") is read whenever "+subj+" ∈ "+set.String()+" ⊇ [1,+∞): every tag that has a name is looked at")
		} else {
			c.Bad(s.props, fname(c, s.fn), construct, pos, "tag[0] ("+s.via+") is read only when "+subj+" ∈ "+set.String()+": a bare first d tag ([\"d\"], the empty d value) is passed over and the event is filed under a later d tag's value — two versions of one address are both retained (want ⊇ [1,+∞))")
		}
	}
}
