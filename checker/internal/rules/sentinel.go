package rules

import (
	"fmt"
	"go/token"
	"go/types"
	"sort"
	"strings"

	"golang.org/x/tools/go/ssa"

	"mocverif/internal/an"
	"mocverif/internal/core"
)

// SENTINEL-IS: a belief-contradiction rule (Engler et al.) over the module's own sentinel errors.
// `err == ErrX` states the belief "ErrX reaches this point as itself"; if the function err comes
// from hands ErrX out only wrapped (`fmt.Errorf("…: %w", ErrX)`, errors.Join), the comparison can
// never hold, the branch written for ErrX is dead and every ErrX outcome takes the other branch.
// Reported under the properties whose entry points reach the comparing function.
func init() {
	reg(&core.RuleInfo{Name: "INDEX-TEST", Props: allProps, Engine: "PROV", Floor: 1, Confirmed: 3,
		Doc: "the result of an index search (-1 = not found) is not tested with > 0 / <= 0, which takes a hit at position 0 for a miss", Run: runIndexTest})
	reg(&core.RuleInfo{Name: "SENTINEL-IS", Props: allProps, Engine: "PROV", Floor: 1, Confirmed: 0,
		Doc: "a sentinel error of the module is not compared with == / != (or switched on) where the compared value can carry it only wrapped", Run: runSentinelIs})
}

type errAtoms struct {
	bare    map[*ssa.Global]bool
	wrapped map[*ssa.Global]bool
	unknown bool
}

func newErrAtoms() *errAtoms {
	return &errAtoms{bare: map[*ssa.Global]bool{}, wrapped: map[*ssa.Global]bool{}}
}

var errorType = types.Universe.Lookup("error").Type()

// sentinelOf: v is a load of a package-level error variable of the module.
func sentinelOf(P *core.Program, v ssa.Value) *ssa.Global {
	u, ok := v.(*ssa.UnOp)
	if !ok || u.Op != token.MUL {
		return nil
	}
	g, ok := u.X.(*ssa.Global)
	if !ok || g.Pkg == nil || !types.Identical(g.Type().(*types.Pointer).Elem(), errorType) {
		return nil
	}
	for _, pkg := range []*ssa.Package{P.Root, P.Sqlite, P.Prom} {
		if pkg != nil && g.Pkg == pkg {
			return g
		}
	}
	return nil
}

// collectErr: what the error value v (of fn) can be made of.
func collectErr(P *core.Program, v ssa.Value, at *errAtoms, wrapped bool, depth int, seen map[ssa.Value]bool) {
	if v == nil || seen[v] {
		return
	}
	seen[v] = true
	if depth > 5 {
		at.unknown = true
		return
	}
	if g := sentinelOf(P, v); g != nil {
		if wrapped {
			at.wrapped[g] = true
		} else {
			at.bare[g] = true
		}
		return
	}
	switch x := v.(type) {
	case *ssa.Const:
		return
	case *ssa.Phi:
		for _, e := range x.Edges {
			collectErr(P, e, at, wrapped, depth, seen)
		}
	case *ssa.MakeInterface:
		// a concrete error value made here (a typed error): not a sentinel variable
		return
	case *ssa.ChangeInterface:
		collectErr(P, x.X, at, wrapped, depth, seen)
	case *ssa.UnOp:
		if x.Op == token.MUL {
			if a := an.ResolveAlloc(x.X); a != nil {
				for _, st := range an.StoresTo(a) {
					collectErr(P, st.Val, at, wrapped, depth, seen)
				}
				return
			}
		}
		at.unknown = true
	case *ssa.Extract:
		if call, ok := x.Tuple.(*ssa.Call); ok {
			collectCall(P, call, x.Index, at, wrapped, depth, seen)
			return
		}
		at.unknown = true
	case *ssa.Call:
		collectCall(P, x, 0, at, wrapped, depth, seen)
	default:
		at.unknown = true
	}
}

func collectCall(P *core.Program, call *ssa.Call, idx int, at *errAtoms, wrapped bool, depth int, seen map[ssa.Value]bool) {
	name := an.CalleeName(&call.Call)
	switch name {
	case "errors.New":
		return
	case "fmt.Errorf", "errors.Join":
		args := call.Call.Args
		if name == "fmt.Errorf" {
			args = args[1:]
		}
		for _, a := range args {
			elems, ok := an.VariadicElems(a)
			if !ok {
				at.unknown = true
				continue
			}
			for _, el := range elems {
				if mi, isMI := el.(*ssa.MakeInterface); isMI {
					el = mi.X
				}
				if ci, isCI := el.(*ssa.ChangeInterface); isCI {
					el = ci.X // (an error handed to a ...any parameter)
				}
				if !types.Identical(el.Type(), errorType) {
					continue
				}
				collectErr(P, el, at, true, depth, seen)
			}
		}
		return
	}
	g := an.StaticCallee(&call.Call)
	if g == nil {
		g = an.InvokeConcrete(&call.Call)
	}
	if g == nil || !P.InModule(g) || len(g.Blocks) == 0 {
		// a library function (ctx.Err(), hex.DecodeString, rows.Scan, …) cannot hand out one of the
		// module's variables unless it was handed an error (errors.Unwrap)
		lib := (g != nil && !P.InModule(g)) || (call.Call.IsInvoke() && !inModuleIface(P, call.Call.Value.Type()))
		if lib {
			for _, a := range call.Call.Args {
				if types.Identical(a.Type(), errorType) {
					at.unknown = true
				}
			}
			return
		}
		at.unknown = true
		return
	}
	for _, rb := range an.ReturnBlocks(g) {
		rvs := an.ReturnValues(an.LastInstr(rb).(*ssa.Return))
		if idx < len(rvs) {
			collectErr(P, rvs[idx], at, wrapped, depth+1, seen)
		}
	}
}

func inModuleIface(P *core.Program, t types.Type) bool {
	n, ok := t.(*types.Named)
	if !ok || n.Obj().Pkg() == nil {
		return false
	}
	for _, pkg := range []*ssa.Package{P.Root, P.Sqlite, P.Prom} {
		if pkg != nil && pkg.Pkg == n.Obj().Pkg() {
			return true
		}
	}
	return false
}

func runSentinelIs(c *core.Ctx) {
	P := c.P
	n := 0
	for _, fn := range P.ModFuncs {
		if strings.HasSuffix(P.PkgOf(fn), "/cmd/mocrelay") {
			continue
		}
		an.Instrs(fn, func(in ssa.Instruction) {
			b, ok := in.(*ssa.BinOp)
			if !ok || (b.Op != token.EQL && b.Op != token.NEQ) {
				return
			}
			s, other := sentinelOf(P, b.X), b.Y
			if s == nil {
				s, other = sentinelOf(P, b.Y), b.X
			}
			if s == nil || !types.Identical(other.Type(), errorType) {
				return
			}
			n++
			c.CountSites(1)
			at := newErrAtoms()
			collectErr(P, other, at, false, 0, map[ssa.Value]bool{})
			props := subsystemProps(c, fn)
			construct := "compare(" + an.GlobalNameHook(s.Object()) + ")"
			dead := at.wrapped[s] && !at.bare[s] && !at.unknown
			var w []string
			for g := range at.wrapped {
				w = append(w, g.Name())
			}
			sort.Strings(w)
			c.Check(!dead, props, fname(c, fn), construct, P.Pos(b.Pos()),
				fmt.Sprintf("the compared value can be %s itself (or its origin is not in view)", s.Name()),
				fmt.Sprintf("%s is compared with %s, but the value compared (%s) carries it only wrapped (%%w / errors.Join; wrapped here: %v): the comparison never holds, the branch written for %s is dead and every such outcome is treated like the others — errors.Is is needed", s.Name(), b.Op, clip(an.PathOf(other), 60), w, s.Name()))
		})
	}
	if n == 0 {
		c.CountFuncs(len(P.ModFuncs))
		c.Trivial(nil, "-", "sentinel-comparisons", "-", fmt.Sprintf("no == / != against a package-level error variable of the module in its %d functions", len(P.ModFuncs)))
	}
}

// deadByErrorsIs: block b of fn sits behind `errors.Is(err, S)` answering false (or true) although
// err — non-nil there — can only be S, bare or wrapped (resp. can never be S): the branch is dead.
func deadByErrorsIs(P *core.Program, fn *ssa.Function, b *ssa.BasicBlock) bool {
	for _, g := range an.Guards(fn, b) {
		g = an.NormCond(g)
		call, ok := g.V.(*ssa.Call)
		if !ok || an.CalleeName(&call.Call) != "errors.Is" || len(call.Call.Args) != 2 {
			continue
		}
		s := sentinelOf(P, call.Call.Args[1])
		if s == nil {
			continue
		}
		at := newErrAtoms()
		collectErr(P, call.Call.Args[0], at, false, 0, map[ssa.Value]bool{})
		if at.unknown {
			continue
		}
		only := len(at.bare)+len(at.wrapped) > 0
		for x := range at.bare {
			if x != s {
				only = false
			}
		}
		for x := range at.wrapped {
			if x != s {
				only = false
			}
		}
		never := !at.bare[s] && !at.wrapped[s]
		// (the value must be non-nil where the test is made for "only S" to decide it)
		nonNil := false
		for _, g2 := range an.Guards(fn, call.Block()) {
			g2 = an.NormCond(g2)
			if bo, isB := g2.V.(*ssa.BinOp); isB && an.IsNilConst(bo.Y) && bo.X == call.Call.Args[0] && (bo.Op == token.NEQ) == g2.True && (bo.Op == token.NEQ || bo.Op == token.EQL) {
				nonNil = true
			}
		}
		if (only && nonNil && !g.True) || (never && g.True) {
			return true
		}
	}
	return false
}

// ---------------------------------------------------------------- INDEX-TEST

// INDEX-TEST: the second belief-contradiction rule. A search over a slice that answers with a
// position, -1 meaning "not there" (slices.Index / IndexFunc, or a module function that hands such
// an answer on), states by its contract that 0 is a hit. A test `i > 0` (`i <= 0`,
// `i >= 1`, `i < 1`) of that answer treats the first element as absent: the d tag that happens to
// stand first, the invalid value at the head of a list.
var indexSearch = map[string]bool{
	// searches over a slice: position 0 is an element like any other. (Searches in a string are left
	// alone: `strings.Index(s, ":") > 0` legitimately asks for a separator behind a non-empty prefix.)
	"slices.Index": true, "slices.IndexFunc": true,
}

// indexAnswer: v is the answer of an index search, directly or through module functions that
// return nothing but such answers (and the constant -1).
func indexAnswer(P *core.Program, v ssa.Value, depth int) bool {
	call, ok := v.(*ssa.Call)
	if !ok || depth > 2 {
		return false
	}
	if indexSearch[an.CalleeName(&call.Call)] {
		return true
	}
	g := an.StaticCallee(&call.Call)
	if g == nil || !P.InModule(g) || len(g.Blocks) == 0 || g.Signature.Results().Len() != 1 {
		return false
	}
	if bt, isB := g.Signature.Results().At(0).Type().Underlying().(*types.Basic); !isB || bt.Kind() != types.Int {
		return false
	}
	n := 0
	for _, rb := range an.ReturnBlocks(g) {
		rv := an.ReturnValues(an.LastInstr(rb).(*ssa.Return))[0]
		if k, isK := an.ConstInt(rv); isK && k == -1 {
			continue
		}
		if !indexAnswer(P, rv, depth+1) {
			return false
		}
		n++
	}
	return n > 0
}

func runIndexTest(c *core.Ctx) {
	P := c.P
	n := 0
	for _, fn := range P.ModFuncs {
		if strings.HasSuffix(P.PkgOf(fn), "/cmd/mocrelay") {
			continue
		}
		an.Instrs(fn, func(in ssa.Instruction) {
			b, ok := in.(*ssa.BinOp)
			if !ok {
				return
			}
			x, y, op := b.X, b.Y, b.Op
			if _, isK := an.ConstInt(x); isK {
				// constant on the left: mirror
				x, y = y, x
				switch op {
				case token.LSS:
					op = token.GTR
				case token.GTR:
					op = token.LSS
				case token.LEQ:
					op = token.GEQ
				case token.GEQ:
					op = token.LEQ
				}
			}
			k, isK := an.ConstInt(y)
			if !isK {
				return
			}
			switch op {
			case token.LSS, token.GTR, token.LEQ, token.GEQ, token.EQL, token.NEQ:
			default:
				return
			}
			v := x
			if !indexAnswer(P, v, 0) {
				if lv := blockLocal(v); lv == nil || !indexAnswer(P, lv, 0) {
					return
				}
				v = blockLocal(v)
			}
			n++
			c.CountSites(1)
			wrong := (op == token.GTR && k == 0) || (op == token.LEQ && k == 0) || (op == token.GEQ && k == 1) || (op == token.LSS && k == 1)
			c.Check(!wrong, subsystemProps(c, fn), fname(c, fn), "index-test("+clip(an.CalleeName(&v.(*ssa.Call).Call), 40)+")", P.Pos(b.Pos()),
				"the search's answer is tested against its own contract (-1 = not found, 0 = found first)",
				fmt.Sprintf("the answer of %s is tested with %s %d: a hit at position 0 counts as a miss — the first element (a leading d tag, the first value of a list) is treated as absent", clip(an.CalleeName(&v.(*ssa.Call).Call), 50), op, k))
		})
	}
	if n == 0 {
		c.NoAnchor(nil, "tests of index-search answers (slices.IndexFunc over the tags)")
	}
}
